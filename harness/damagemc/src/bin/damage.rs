//! C09 — damage to persistent files is detected or harmless, never silent, never a panic.
//!
//!   damage --tier quick|thorough --out report.json [--fixtures a,b] [--threads n]
//!   damage --replay replays/C09/....json
//!
//! The parent enumerates the fixtures; every fixture is swept in a child process (re-exec with
//! --child) so that an abort or a hang of the subject is observed: the child writes the index of
//! the case each worker is about to run ahead of running it.

use std::collections::HashSet;
use std::io::Write;
use std::os::unix::fs::FileExt;
use std::os::unix::process::ExitStatusExt;
use std::path::{Path, PathBuf};
use std::time::{Duration, Instant};

use damagemc::alloc::CountingAlloc;
use damagemc::damage::{self, Damage, Plan};
use damagemc::fixtures::{self, Fixture, Kind, Truth};
use damagemc::observe::{self, Ctx, Finding, LogObs, LogRef, ManiObs, ManiState, SstObs, StoreObs};
use vcore::{Args, Report, Scratch, Value, Violation, json};

#[global_allocator]
static GLOBAL: CountingAlloc = CountingAlloc;

const PROP: &str = "C09";

enum Pristine {
    Sst {
        obs: SstObs,
        probes: Vec<(Vec<u8>, u64)>,
        cap: usize,
    },
    Log {
        obs: LogObs,
        lref: LogRef,
        cap: usize,
    },
    Mani {
        obs: ManiObs,
        open_prefixes: Option<Vec<ManiState>>,
    },
    Store {
        obs: StoreObs,
    },
}

struct Runner {
    fx: Fixture,
    pristine: Pristine,
    /// a single allocation request above this is an "unbounded allocation attempt"
    limit: usize,
}

struct CaseResult {
    findings: Vec<(String, String)>,
    outcome: u64,
    nontrivial: bool,
    calls: u64,
    summary: String,
    /// no step returned an error or panicked
    all_ok: bool,
    max_alloc: usize,
}

fn machinery(msg: &str) -> ! {
    eprintln!("damage: machinery error: {msg}");
    std::process::exit(2);
}

impl Runner {
    fn new(name: &str) -> Runner {
        let fx = fixtures::build_fixture(name);
        // "Never attempts an unbounded allocation": SST blocks are bounded by the file; a log
        // frame is bounded by the code's own documented cap, sst::TABLE_FULL_SIZE (the reader
        // refuses larger frames before allocating).  A request within that cap is bounded, so it
        // is not flagged for logs (DESIGN.md 4, C09); anything larger is.
        let limit = match fx.kind {
            fixtures::Kind::Log => sst::TABLE_FULL_SIZE + (4 << 20),
            _ => (64usize << 20).max(4 * fx.pristine().len()),
        };
        let scratch = Scratch::new("pristine");
        let dir = scratch.sub("d");
        fx.write_dir(&dir, None);
        let target = dir.join(fx.target_name());
        let mut ctx = Ctx::new(limit);
        let pristine = match (&fx.kind, &fx.truth) {
            (Kind::Sst, Truth::Sst { entries }) => {
                let probes = observe::load_probes(entries);
                let cap = entries.len() + 1;
                let obs = observe::observe_sst(&mut ctx, &target, &probes, cap);
                if !(obs.open.is_ok()
                    && obs.metadata.is_ok()
                    && obs.forward.1.is_ok()
                    && obs.backward.1.is_ok()
                    && obs.loads.iter().all(|l| l.is_ok()))
                {
                    machinery(&format!("pristine {name} does not read cleanly: {obs:?}"));
                }
                if &obs.forward.0 != entries {
                    machinery(&format!("pristine {name} does not hold what was put in"));
                }
                Pristine::Sst { obs, probes, cap }
            }
            (Kind::Log, Truth::Log { batches }) => {
                let lref = LogRef::new(batches);
                let cap = lref.flat.len() + 8;
                let obs = observe::observe_log(&mut ctx, &target, &scratch.sub("out.sst"), cap);
                let n = batches.len();
                let good = obs.drain.1.is_ok()
                    && obs.drain.0 == lref.flat
                    && obs.builder
                        == observe::Step::Ok(Some((
                            lref.prefix_sorted[n].clone(),
                            lref.prefix_digest[n],
                        )))
                    && obs.setsum == observe::Step::Ok(lref.prefix_hex[n].clone());
                if !good {
                    machinery(&format!(
                        "pristine {name} does not replay to what was appended: drain {} builder {} setsum {}",
                        obs.drain.1.class(),
                        obs.builder.class(),
                        obs.setsum.class()
                    ));
                }
                Pristine::Log { obs, lref, cap }
            }
            (Kind::Mani, Truth::Mani { edits }) => {
                let obs = observe::observe_mani(&mut ctx, &dir, &target);
                if !(obs.iter.1.is_ok() && obs.verify.is_ok() && obs.open.is_ok()) {
                    machinery(&format!("pristine {name} does not read cleanly: {obs:?}"));
                }
                let states = observe::mani_prefix_states(edits);
                if observe::Step::Ok(states.last().unwrap().clone()) != obs.open {
                    machinery(&format!(
                        "pristine {name}: Manifest::open state differs from the applied edits: {:?}",
                        obs.open
                    ));
                }
                if fx.target_name() == "MANIFEST" && !name.starts_with("mani-roll") {
                    if &obs.iter.0 != edits {
                        machinery(&format!("pristine {name}: iterator differs from applied edits"));
                    }
                }
                let open_prefixes = if fx.target_name() == "MANIFEST" {
                    Some(observe::mani_prefix_states(&obs.iter.0))
                } else {
                    None
                };
                Pristine::Mani { obs, open_prefixes }
            }
            (Kind::Store, _) => {
                let obs = observe::observe_store(&mut ctx, &dir);
                if !(obs.open.is_ok() && obs.scan.1.is_ok() && obs.loads.iter().all(|l| l.is_ok()))
                {
                    machinery(&format!("pristine {name} does not read cleanly: {obs:?}"));
                }
                if obs.scan.0.is_empty() {
                    machinery("pristine store is empty");
                }
                Pristine::Store { obs }
            }
            _ => unreachable!(),
        };
        Runner {
            fx,
            pristine,
            limit,
        }
    }

    fn cases(&self, thorough: bool) -> (Vec<Damage>, u64) {
        let unchecksummed = self.fx.unchecksummed();
        let plan = Plan {
            pristine: self.fx.pristine(),
            window: self.fx.window.as_deref(),
            unchecksummed: &unchecksummed,
            pairs: thorough && self.fx.kind != Kind::Store,
            only_unchecksummed_bitflips: self.fx.kind == Kind::Store,
        };
        damage::enumerate(&plan)
    }

    fn region_name(&self, d: &Damage) -> String {
        let offs = d.offsets(self.fx.pristine().len());
        let mut names: Vec<&str> = offs.iter().map(|o| self.fx.region_of(*o).name).collect();
        names.sort();
        names.dedup();
        names.join("+")
    }

    fn where_text(&self, d: &Damage) -> String {
        let offs = d.offsets(self.fx.pristine().len());
        let layout = if matches!(self.fx.kind, Kind::Sst | Kind::Store) {
            Some(fixtures::sst_layout(self.fx.pristine()))
        } else {
            None
        };
        offs.iter()
            .map(|o| {
                let r = self.fx.region_of(*o);
                let fine = match &layout {
                    Some(l) if *o < self.fx.pristine().len() => {
                        format!(", {}", fixtures::sst_describe_offset(l, *o))
                    }
                    _ => String::new(),
                };
                format!("offset {o} ({}{fine})", r.note)
            })
            .collect::<Vec<_>>()
            .join(" and ")
    }

    fn case_json(&self, d: &Damage) -> Value {
        json!({"fixture": self.fx.name, "damage": d.to_json()})
    }

    fn run_case(&self, scratch: &Scratch, d: &Damage) -> CaseResult {
        let damaged = damage::apply(
            self.fx.pristine(),
            d,
            &self.fx.last_record,
            &self.fx.separator,
        );
        let length_changed = damaged.len() != self.fx.pristine().len();
        let mut ctx = Ctx::new(self.limit);
        let dir = scratch.sub("d");
        let (findings, outcome, nontrivial, summary): (Vec<Finding>, u64, bool, String) =
            match &self.pristine {
                Pristine::Sst { obs, probes, cap } => {
                    let path = scratch.sub("t.sst");
                    std::fs::write(&path, &damaged).expect("write damaged file");
                    let got = observe::observe_sst(&mut ctx, &path, probes, *cap);
                    let f = observe::compare_sst(&got, obs, probes, length_changed);
                    let summary = format!(
                        "open {} metadata {} forward {}/{} backward {}/{}",
                        got.open.class(),
                        got.metadata.class(),
                        got.forward.0.len(),
                        got.forward.1.class(),
                        got.backward.0.len(),
                        got.backward.1.class()
                    );
                    (f, observe::sst_outcome(&got), got.open.is_ok(), summary)
                }
                Pristine::Log { obs, lref, cap } => {
                    let path = scratch.sub("t.log");
                    std::fs::write(&path, &damaged).expect("write damaged file");
                    let got = observe::observe_log(&mut ctx, &path, &scratch.sub("out.sst"), *cap);
                    let prefix_ok = d.is_truncate() || d.is_append();
                    let f = observe::compare_log(&got, obs, lref, prefix_ok);
                    let summary = format!(
                        "drain {}/{} log_to_builder {} log_to_setsum {}",
                        got.drain.0.len(),
                        got.drain.1.class(),
                        got.builder.class(),
                        got.setsum.class()
                    );
                    let nontrivial = !got.drain.0.is_empty();
                    (f, observe::log_outcome(&got), nontrivial, summary)
                }
                Pristine::Mani { obs, open_prefixes } => {
                    self.fx.write_dir(&dir, Some(&damaged));
                    let got = observe::observe_mani(&mut ctx, &dir, &dir.join(self.fx.target_name()));
                    let f = observe::compare_mani(
                        &got,
                        obs,
                        d.is_truncate(),
                        open_prefixes.as_deref(),
                    );
                    let summary = format!(
                        "iterator {}/{} verify {} open {}",
                        got.iter.0.len(),
                        got.iter.1.class(),
                        got.verify.class(),
                        got.open.class()
                    );
                    let nontrivial = !got.iter.0.is_empty();
                    (f, observe::mani_outcome(&got), nontrivial, summary)
                }
                Pristine::Store { obs } => {
                    self.fx.write_dir(&dir, Some(&damaged));
                    let got = observe::observe_store(&mut ctx, &dir);
                    let f = observe::compare_store(&got, obs);
                    let summary = format!(
                        "open {} scan {}/{}",
                        got.open.class(),
                        got.scan.0.len(),
                        got.scan.1.class()
                    );
                    (f, observe::store_outcome(&got), got.open.is_ok(), summary)
                }
            };
        let kind = self.fx.kind.name();
        let region = self.region_name(d);
        let class = d.class();
        let mut out: Vec<(String, String)> = vec![];
        for f in findings {
            let sig = format!("c09:{kind}:{region}:{class}:{}", f.what);
            if !out.iter().any(|(s, _)| *s == sig) {
                out.push((
                    sig,
                    format!(
                        "{} [{}] damaged at {}: {} -- {}",
                        self.fx.name,
                        f.class,
                        self.where_text(d),
                        f.detail,
                        summary
                    ),
                ));
            }
        }
        for (step, bytes) in ctx.big_allocs.iter() {
            let sig = format!("c09:{kind}:{region}:{class}:unbounded-allocation({step})");
            if !out.iter().any(|(s, _)| *s == sig) {
                out.push((
                    sig,
                    format!(
                        "{} damaged at {}: step {step} requested a single allocation of {bytes} bytes; the file has {} bytes (limit {}) -- {}",
                        self.fx.name,
                        self.where_text(d),
                        damaged.len(),
                        self.limit,
                        summary
                    ),
                ));
            }
        }
        CaseResult {
            findings: out,
            outcome: vcore::stable_hash(&(kind, outcome)),
            nontrivial,
            calls: ctx.calls,
            summary,
            all_ok: ctx.errs == 0,
            max_alloc: ctx.max_alloc,
        }
    }
}

////////////////////////////////////////////// child ///////////////////////////////////////////////

/// Run `f` with stdout pointed at /dev/null (the subject prints from Manifest::verify).
fn quiet_stdout<R>(f: impl FnOnce() -> R) -> R {
    std::io::stdout().flush().ok();
    let (saved, null) = unsafe {
        let saved = libc::dup(1);
        let null = libc::open(c"/dev/null".as_ptr(), libc::O_WRONLY);
        if null >= 0 {
            libc::dup2(null, 1);
        }
        (saved, null)
    };
    let r = f();
    std::io::stdout().flush().ok();
    unsafe {
        if saved >= 0 {
            libc::dup2(saved, 1);
            libc::close(saved);
        }
        if null >= 0 {
            libc::close(null);
        }
    }
    r
}

/// Cases per work unit of a shard: small for the ~1 MiB files, whose cases are expensive.
fn chunk_size(fx: &Fixture) -> usize {
    if fx.pristine().len() > 65536 || fx.kind == Kind::Store {
        16
    } else {
        256
    }
}

/// One shard of one fixture's sweep, single-threaded (the subject's global counters make threads
/// inside one process contend; processes do not).
fn child_main(args: &Args) {
    let name = args.get("fixture").expect("--fixture").to_string();
    let workdir = PathBuf::from(args.get("workdir").expect("--workdir"));
    let thorough = args.tier_thorough();
    let shard = args.usize("shard", 0);
    let nshards = args.usize("nshards", 1);
    unsafe {
        let fd = libc::open(c"/dev/null".as_ptr(), libc::O_WRONLY);
        if fd >= 0 {
            libc::dup2(fd, 1);
        }
    }
    let runner = Runner::new(&name);
    let (mut cases, dropped) = runner.cases(thorough);
    if let Some(dj) = args.get("damage") {
        let v: Value = serde_json::from_str(dj).expect("--damage is JSON");
        cases = vec![Damage::from_json(&v)];
    }
    let skip: HashSet<usize> = args
        .get("skip")
        .map(|s| s.split(',').filter_map(|x| x.parse().ok()).collect())
        .unwrap_or_default();
    let only: Option<usize> = args.get("only").map(|s| s.parse().expect("--only"));
    let ahead = std::fs::OpenOptions::new()
        .create(true)
        .truncate(true)
        .read(true)
        .write(true)
        .open(workdir.join(format!("ahead-{shard}.bin")))
        .expect("ahead file");
    ahead.write_all_at(&0u64.to_le_bytes(), 0).expect("ahead init");
    let mut flags: Vec<u8> = vec![0; cases.len()];
    let mut max_subject_alloc = 0usize;
    let mut rep = Report::new(&format!("damage-{name}"), PROP);
    let scratch = Scratch::new("dmg");
    // DAMAGEMC_SELFTEST_ABORT=<fixture>:<case index> exercises the abort attribution path
    let selftest_abort: Option<usize> = std::env::var("DAMAGEMC_SELFTEST_ABORT")
        .ok()
        .and_then(|v| {
            let (f, i) = v.split_once(':')?;
            if f == name { i.parse().ok() } else { None }
        });
    let chunk = chunk_size(&runner.fx);
    let indices: Vec<usize> = match only {
        Some(i) => vec![i],
        None => (0..cases.len())
            .filter(|i| (i / chunk) % nshards == shard)
            .collect(),
    };
    for idx in indices {
        if skip.contains(&idx) {
            rep.count("cases_skipped_after_abort", 1);
            continue;
        }
        let d = &cases[idx];
        ahead
            .write_all_at(&(idx as u64 + 1).to_le_bytes(), 0)
            .expect("write ahead");
        if selftest_abort == Some(idx) {
            // machinery self-test: pretend the subject aborted on this case
            std::process::abort();
        }
        let r = runner.run_case(&scratch, d);
        rep.evaluations += 1;
        rep.transitions += r.calls;
        rep.outcomes.insert(r.outcome);
        flags[idx] = if r.nontrivial { 3 } else { 1 };
        rep.count(&format!("cases:{}:{}", runner.fx.kind.name(), d.class()), 1);
        let verdict = if !r.findings.is_empty() {
            "flagged"
        } else if r.all_ok {
            "no-error"
        } else {
            "detected"
        };
        rep.count(
            &format!(
                "verdict:{}:{}:{verdict}",
                runner.fx.kind.name(),
                runner.region_name(d)
            ),
            1,
        );
        max_subject_alloc = max_subject_alloc.max(r.max_alloc);
        if idx % 4099 == 7 {
            rep.sample(json!({
                "case": runner.case_json(d),
                "region": runner.region_name(d),
                "observed": r.summary,
            }));
        }
        if !r.findings.is_empty() {
            // replay before report
            let again = runner.run_case(&scratch, d);
            for (sig, detail) in r.findings.iter() {
                if !again.findings.iter().any(|(s, _)| s == sig) {
                    rep.count("non_reproducible_findings", 1);
                    continue;
                }
                rep.violation(Violation {
                    property: PROP.to_string(),
                    signature: sig.clone(),
                    detail: detail.clone(),
                    case: runner.case_json(d),
                });
            }
        }
    }
    ahead.write_all_at(&0u64.to_le_bytes(), 0).expect("write ahead");
    std::fs::write(workdir.join(format!("flags-{shard}.bin")), &flags).expect("flags");
    let result = json!({
        "fixture": name,
        "cases": cases.len(),
        "dropped_duplicate_overwrites": dropped,
        "evaluations": rep.evaluations,
        "transitions": rep.transitions,
        "outcomes": rep.outcomes.iter().collect::<Vec<_>>(),
        "samples": rep.samples,
        "violations": rep.violations.iter().map(|v| json!({
            "signature": v.signature, "detail": v.detail, "case": v.case,
        })).collect::<Vec<_>>(),
        "violation_sigs": rep.violation_sigs,
        "counters": rep.counters,
        "global_max_alloc": max_subject_alloc,
    });
    let tmp = workdir.join(format!("result-{shard}.json.tmp"));
    std::fs::write(&tmp, serde_json::to_string(&result).unwrap()).expect("result");
    std::fs::rename(&tmp, workdir.join(format!("result-{shard}.json"))).expect("rename result");
}

////////////////////////////////////////////// parent //////////////////////////////////////////////

struct Spawned {
    child: std::process::Child,
    started: Instant,
    timeout: Duration,
}

fn spawn_child(
    name: &str,
    tier: &str,
    workdir: &Path,
    shard: usize,
    nshards: usize,
    extra: &[(&str, String)],
    timeout: Duration,
) -> Spawned {
    let _ = std::fs::remove_file(workdir.join(format!("result-{shard}.json")));
    let exe = std::env::current_exe().expect("current_exe");
    let stderr =
        std::fs::File::create(workdir.join(format!("stderr-{shard}.txt"))).expect("stderr file");
    let mut cmd = std::process::Command::new(exe);
    cmd.arg("--child")
        .arg("--fixture")
        .arg(name)
        .arg("--tier")
        .arg(tier)
        .arg("--workdir")
        .arg(workdir)
        .arg("--shard")
        .arg(shard.to_string())
        .arg("--nshards")
        .arg(nshards.to_string());
    for (k, v) in extra {
        cmd.arg(format!("--{k}")).arg(v);
    }
    cmd.stdout(std::process::Stdio::null()).stderr(stderr);
    Spawned {
        child: cmd.spawn().expect("spawn child"),
        started: Instant::now(),
        timeout,
    }
}

/// None: still running.  Some(None): finished cleanly.  Some(Some(how)): died.
fn poll_child(sp: &mut Spawned, name: &str, workdir: &Path, shard: usize) -> Option<Option<String>> {
    match sp.child.try_wait().expect("wait") {
        Some(st) => {
            if st.success() && workdir.join(format!("result-{shard}.json")).exists() {
                return Some(None);
            }
            if st.code() == Some(2) {
                machinery(&format!(
                    "child for {name} reported: {}",
                    stderr_tail(workdir, shard)
                ));
            }
            let how = match (st.signal(), st.code()) {
                (Some(s), _) => format!("signal {s}"),
                (_, Some(c)) => format!("exit code {c}"),
                _ => "unknown".into(),
            };
            Some(Some(how))
        }
        None => {
            if sp.started.elapsed() > sp.timeout {
                let _ = sp.child.kill();
                let _ = sp.child.wait();
                return Some(Some(format!(
                    "hang (no result after {} s)",
                    sp.timeout.as_secs()
                )));
            }
            None
        }
    }
}

fn wait_child(mut sp: Spawned, name: &str, workdir: &Path, shard: usize) -> Option<String> {
    loop {
        if let Some(r) = poll_child(&mut sp, name, workdir, shard) {
            return r;
        }
        std::thread::sleep(Duration::from_millis(5));
    }
}

fn in_flight(workdir: &Path, shard: usize) -> Option<usize> {
    let b = std::fs::read(workdir.join(format!("ahead-{shard}.bin"))).unwrap_or_default();
    if b.len() >= 8 {
        let x = u64::from_le_bytes(b[..8].try_into().unwrap());
        if x > 0 {
            return Some((x - 1) as usize);
        }
    }
    None
}

fn stderr_tail(workdir: &Path, shard: usize) -> String {
    let s = std::fs::read_to_string(workdir.join(format!("stderr-{shard}.txt"))).unwrap_or_default();
    let lines: Vec<&str> = s.lines().rev().take(4).collect();
    lines.into_iter().rev().collect::<Vec<_>>().join(" | ")
}

struct FixtureWork {
    name: String,
    runner: Runner,
    cases: Vec<Damage>,
    workdir: PathBuf,
    nshards: usize,
    done_shards: usize,
    failed: bool,
    started: Option<Instant>,
    finished: Option<Instant>,
}

struct Job {
    fixture: usize,
    shard: usize,
    skip: Vec<usize>,
    restarts: usize,
}

fn parent_main(args: &Args) {
    let thorough = args.tier_thorough();
    let tier = if thorough { "thorough" } else { "quick" };
    let threads = args.threads();
    let names: Vec<String> = match args.get("fixtures") {
        Some(s) => s.split(',').map(|x| x.to_string()).collect(),
        None => fixtures::fixture_names(thorough),
    };
    let mut total = Report::new("damage", PROP);
    total.max_samples = 12;
    let work = Scratch::new("damage-parent");
    let per_case_timeout = Duration::from_secs(60);
    let sweep_timeout = Duration::from_secs(if thorough { 1500 } else { 300 });
    let mut fws: Vec<FixtureWork> = vec![];
    for name in names.iter() {
        let runner = quiet_stdout(|| Runner::new(name));
        let (cases, dropped) = runner.cases(thorough);
        total.pruned_noops += dropped;
        let workdir = work.sub(name);
        std::fs::create_dir_all(&workdir).expect("workdir");
        let nshards = cases
            .len()
            .div_ceil(8 * chunk_size(&runner.fx))
            .clamp(1, threads.max(1));
        fws.push(FixtureWork {
            name: name.clone(),
            runner,
            cases,
            workdir,
            nshards,
            done_shards: 0,
            failed: false,
            started: None,
            finished: None,
        });
    }
    // biggest fixtures first
    let mut order: Vec<usize> = (0..fws.len()).collect();
    order.sort_by_key(|i| {
        std::cmp::Reverse(fws[*i].cases.len() as u64 * (fws[*i].runner.fx.pristine().len() as u64 + 4096))
    });
    let mut queue: std::collections::VecDeque<Job> = std::collections::VecDeque::new();
    for i in order {
        for shard in 0..fws[i].nshards {
            queue.push_back(Job {
                fixture: i,
                shard,
                skip: vec![],
                restarts: 0,
            });
        }
    }
    let mut running: Vec<(Job, Spawned)> = vec![];
    while !queue.is_empty() || !running.is_empty() {
        while running.len() < threads.max(1) {
            let Some(job) = queue.pop_front() else { break };
            let fw = &mut fws[job.fixture];
            if fw.failed {
                continue;
            }
            fw.started.get_or_insert_with(Instant::now);
            let mut extra: Vec<(&str, String)> = vec![];
            if !job.skip.is_empty() {
                extra.push((
                    "skip",
                    job.skip.iter().map(|i| i.to_string()).collect::<Vec<_>>().join(","),
                ));
            }
            let sp = spawn_child(
                &fw.name,
                tier,
                &fw.workdir,
                job.shard,
                fw.nshards,
                &extra,
                sweep_timeout,
            );
            running.push((job, sp));
        }
        let mut i = 0;
        let mut progressed = false;
        while i < running.len() {
            let (job, sp) = &mut running[i];
            let fw = &fws[job.fixture];
            let Some(end) = poll_child(sp, &fw.name, &fw.workdir, job.shard) else {
                i += 1;
                continue;
            };
            progressed = true;
            let (mut job, _) = running.swap_remove(i);
            let fw = &mut fws[job.fixture];
            match end {
                None => {
                    fw.done_shards += 1;
                    if fw.done_shards == fw.nshards {
                        fw.finished = Some(Instant::now());
                    }
                }
                Some(how) => {
                    job.restarts += 1;
                    let tail = stderr_tail(&fw.workdir, job.shard);
                    let cand = in_flight(&fw.workdir, job.shard);
                    let mut culprit = None;
                    if let Some(idx) = cand {
                        // replay before report: the case must bring a process down twice, alone
                        let one = work.sub(&format!("{}-one", fw.name));
                        std::fs::create_dir_all(&one).expect("workdir");
                        let mut ends = vec![];
                        for _ in 0..2 {
                            let sp = spawn_child(
                                &fw.name,
                                tier,
                                &one,
                                0,
                                1,
                                &[("only", idx.to_string())],
                                per_case_timeout,
                            );
                            match wait_child(sp, &fw.name, &one, 0) {
                                None => break,
                                Some(h) => ends.push((h, stderr_tail(&one, 0))),
                            }
                        }
                        if ends.len() == 2 {
                            culprit = Some(idx);
                            let d = &fw.cases[idx];
                            let what = if ends[0].0.starts_with("hang") {
                                "hang".to_string()
                            } else {
                                format!("abort({})", ends[0].0)
                            };
                            total.violation(Violation {
                                property: PROP.to_string(),
                                signature: format!(
                                    "c09:{}:{}:{}:{what}",
                                    fw.runner.fx.kind.name(),
                                    fw.runner.region_name(d),
                                    d.class()
                                ),
                                detail: format!(
                                    "{} damaged at {}: the reading process did not survive ({}); stderr: {}",
                                    fw.name,
                                    fw.runner.where_text(d),
                                    ends[0].0,
                                    ends[0].1
                                ),
                                case: fw.runner.case_json(d),
                            });
                        }
                    }
                    match culprit {
                        Some(idx) => job.skip.push(idx),
                        None => {
                            total.count("unattributed_child_deaths", 1);
                            total.notes.insert(
                                format!("unattributed_child_death:{}:{}", fw.name, job.shard),
                                json!({"how": how, "stderr": tail, "in_flight": cand}),
                            );
                        }
                    }
                    if job.restarts >= 8 || (culprit.is_none() && job.restarts >= 2) {
                        total.cap(&format!(
                            "sweep of {} abandoned: a child died ({how}) {} times",
                            fw.name, job.restarts
                        ));
                        fw.failed = true;
                    } else {
                        queue.push_front(job);
                    }
                }
            }
        }
        if !progressed {
            std::thread::sleep(Duration::from_millis(5));
        }
    }
    // merge the shard results
    let mut fixtures_json = vec![];
    for fw in fws.iter() {
        let name = &fw.name;
        if fw.failed {
            fixtures_json.push(json!({"fixture": name, "completed": false}));
            continue;
        }
        let mut part = Report::new("damage", PROP);
        let mut flags: Vec<u8> = vec![0; fw.cases.len()];
        let mut max_alloc = 0u64;
        for shard in 0..fw.nshards {
            let rs = std::fs::read_to_string(fw.workdir.join(format!("result-{shard}.json")))
                .expect("shard result");
            let r: Value = serde_json::from_str(&rs).expect("child result is JSON");
            if r["cases"].as_u64() != Some(fw.cases.len() as u64) {
                machinery(&format!("child and parent enumerate {name} differently"));
            }
            let mut one = Report::new("damage", PROP);
            one.evaluations = r["evaluations"].as_u64().unwrap_or(0);
            one.traces_validated = one.evaluations;
            one.transitions = r["transitions"].as_u64().unwrap_or(0);
            for o in r["outcomes"].as_array().unwrap() {
                one.outcomes.insert(o.as_u64().unwrap());
            }
            for s in r["samples"].as_array().unwrap().iter().take(1) {
                one.samples.push(s.clone());
            }
            for v in r["violations"].as_array().unwrap() {
                one.violations.push(Violation {
                    property: PROP.to_string(),
                    signature: v["signature"].as_str().unwrap().to_string(),
                    detail: v["detail"].as_str().unwrap().to_string(),
                    case: v["case"].clone(),
                });
            }
            for (k, n) in r["violation_sigs"].as_object().unwrap() {
                one.violation_sigs.insert(k.clone(), n.as_u64().unwrap());
            }
            for (k, n) in r["counters"].as_object().unwrap() {
                one.counters.insert(k.clone(), n.as_u64().unwrap());
            }
            max_alloc = max_alloc.max(r["global_max_alloc"].as_u64().unwrap_or(0));
            part.merge(one);
            let f = std::fs::read(fw.workdir.join(format!("flags-{shard}.bin"))).unwrap_or_default();
            for (i, b) in f.iter().enumerate() {
                flags[i] |= *b;
            }
        }
        let mut nontrivial = 0u64;
        for (idx, f) in flags.iter().enumerate() {
            if *f & 1 == 1 {
                let h = vcore::stable_hash(&(name.as_str(), idx));
                part.states.insert(h);
                if *f & 2 == 2 {
                    part.nontrivial.insert(h);
                    nontrivial += 1;
                }
            }
        }
        let mut region_sizes = serde_json::Map::new();
        for reg in fw.runner.fx.regions.iter() {
            let e = region_sizes.entry(reg.name.to_string()).or_insert(json!(0));
            *e = json!(e.as_u64().unwrap() + reg.range.len() as u64);
        }
        fixtures_json.push(json!({
            "fixture": name,
            "describe": fw.runner.fx.describe,
            "region_bytes": region_sizes,
            "cases": fw.cases.len(),
            "cases_run": part.evaluations,
            "cases_past_the_first_gate": nontrivial,
            "distinct_outcomes": part.outcomes.len(),
            "largest_allocation_request_in_a_subject_step": max_alloc,
            "shards": fw.nshards,
            "wall_s": match (fw.started, fw.finished) {
                (Some(a), Some(b)) => (b - a).as_secs_f64(),
                _ => 0.0,
            },
        }));
        total.merge(part);
    }
    if total.outcomes.len() <= 1 && total.evaluations > 0 {
        machinery("one distinct outcome over all cases: the harness is vacuous");
    }
    total.bound = json!({
        "tier": tier,
        "damage_per_file": {
            "byte": "every offset (inside the window, where one is stated): 8 single-bit flips and the overwrites {0x00, 0xFF, b^0x80, b+1}, identical results merged",
            "truncate": "every length 0..len-1 (inside the window, plus 0)",
            "append": damage::SUFFIXES.iter().map(|s| s.name()).collect::<Vec<_>>(),
            "pairs": if thorough { "all pairs of single-byte damages at two distinct offsets of the regions no checksum covers (SST final block + trailing offset; log headers + padding; manifest crc digits + separator lines)" } else { "thorough tier only" },
            "store": if thorough { "every bit of the final block and trailing offset of each SST of a 2-SST store" } else { "thorough tier only" },
        },
        "fixtures": fixtures_json,
    });
    total.rule = "every case is one damaged copy of one pristine file produced by the real builders; the full read program of the file kind runs on it (SST: Sst::new, metadata, forward walk, backward walk, load of every key at several timestamps and of absent keys; log: LogIterator drain, log_to_builder into an SstBuilder, log_to_setsum; manifest: ManifestIterator drain, Manifest::verify, Manifest::open + strs/info; store: KeyValueStore::open, loads, full scan) and every step must return an error or exactly what the same step returned on the pristine file (entries produced before an error must be a prefix of the pristine ones). Accepted by contract: a truncated or extended log may read as a prefix of whole batches then end or error (C12); a truncated manifest may read as a prefix of whole edits (C13); SstMetadata.file_size of a file whose length changed. distinct = (fixture, damage) after merging overwrites that produce the same bytes; non-trivial = the damaged file got past the first gate (Sst::new / first log entry / first manifest edit / KeyValueStore::open succeeded), so deeper code ran on damaged input; outcome = per-step result classes (ok / error code / panic) with entry counts. Sweeps run in single-threaded child processes (shards of one file's case list) with the in-flight case index written ahead; a single allocation request above max(64 MiB, 4 x file size) is flagged for SSTs and manifests; for logs the bound is the reader's own frame cap TABLE_FULL_SIZE (960 MiB).".into();
    total.assumptions = vec![
        "damage is applied to one file at a time; the other files of a manifest directory or store stay pristine".into(),
        "for the two ~1 MiB logs byte damage and truncation are restricted to the stated windows (all headers +-16 bytes, the padding, 64 bytes either side of the 1 MiB boundary, the last 32 bytes)".into(),
        "the counting allocator throttles requests >= 64 MiB to 4 at a time per process and refuses requests >= 8 GiB (the process then aborts and the parent records it)".into(),
    ];
    total.finish(args, "damage");
    let sigs: Vec<String> = total
        .violation_sigs
        .iter()
        .map(|(s, n)| format!("{n:>8}  {s}"))
        .collect();
    eprintln!(
        "damage: {} cases, {} past the first gate, {} outcomes, {} signatures, {:.1} s\n{}",
        total.evaluations,
        total.nontrivial.len(),
        total.outcomes.len(),
        total.violation_sigs.len(),
        total.started.elapsed().as_secs_f64(),
        sigs.join("\n")
    );
}

////////////////////////////////////////////// replay //////////////////////////////////////////////

fn replay(rf: &Value) {
    let case = &rf["case"];
    let name = case["fixture"].as_str().expect("case.fixture").to_string();
    let d = Damage::from_json(&case["damage"]);
    let want = rf["signature"].as_str().unwrap_or("").to_string();
    println!("replaying {name} with damage {}", d.to_json());
    if want.contains(":abort(") || want.ends_with(":hang") {
        let work = Scratch::new("damage-replay");
        let sp = spawn_child(
            &name,
            "quick",
            &work.path,
            0,
            1,
            &[("damage", d.to_json().to_string()), ("only", "0".to_string())],
            Duration::from_secs(60),
        );
        match wait_child(sp, &name, &work.path, 0) {
            None => {
                println!("expected: the reader returns; observed: it returned");
                drop(work);
                std::process::exit(0);
            }
            Some(how) => {
                println!(
                    "expected: the reader returns an error or the pristine data; observed: the process ended with {how}; stderr: {}",
                    stderr_tail(&work.path, 0)
                );
                println!("REPRODUCED {want}");
                drop(work);
                std::process::exit(1);
            }
        }
    }
    let runner = Runner::new(&name);
    let scratch = Scratch::new("replay");
    let r = runner.run_case(&scratch, &d);
    println!("damage at {}", runner.where_text(&d));
    println!("expected: every read step returns an error or exactly the pristine observation");
    println!("observed: {}", r.summary);
    let mut hit = false;
    for (sig, detail) in r.findings.iter() {
        println!("finding {sig}: {detail}");
        if *sig == want {
            hit = true;
        }
    }
    if r.findings.is_empty() {
        println!("no finding: the property holds on this case");
    }
    if hit {
        println!("REPRODUCED {want}");
    }
    std::io::stdout().flush().ok();
    drop(scratch);
    std::process::exit(if r.findings.is_empty() { 0 } else { 1 });
}

fn main() {
    let args = Args::parse();
    vcore::quiet_panics();
    if args.flag("child") {
        child_main(&args);
        return;
    }
    if let Some(rf) = args.replay_case() {
        replay(&rf);
        return;
    }
    parent_main(&args);
}
