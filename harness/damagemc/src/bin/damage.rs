//! C09 — damage to persistent files is detected or harmless, never silent, never a panic.
//!
//!   damage --tier quick|thorough --out report.json [--fixtures a,b] [--threads n]
//!   damage --replay replays/C09/....json
//!
//! The parent enumerates the fixtures; every fixture is swept in a child process (re-exec with
//! --child) so that an abort or a hang of the subject is observed: the child writes the index of
//! the case each worker is about to run ahead of running it.

use std::collections::HashSet;
use std::io::Write;
use std::os::unix::fs::FileExt;
use std::os::unix::process::ExitStatusExt;
use std::path::{Path, PathBuf};
use std::sync::atomic::{AtomicU8, AtomicUsize, Ordering};
use std::time::{Duration, Instant};

use damagemc::alloc::{self, CountingAlloc};
use damagemc::damage::{self, Damage, Plan};
use damagemc::fixtures::{self, Fixture, Kind, Truth};
use damagemc::observe::{self, Ctx, Finding, LogObs, LogRef, ManiObs, ManiState, SstObs, StoreObs};
use vcore::{Args, Report, Scratch, Value, Violation, json};

#[global_allocator]
static GLOBAL: CountingAlloc = CountingAlloc;

const PROP: &str = "C09";

enum Pristine {
    Sst {
        obs: SstObs,
        probes: Vec<(Vec<u8>, u64)>,
        cap: usize,
    },
    Log {
        obs: LogObs,
        lref: LogRef,
        cap: usize,
    },
    Mani {
        obs: ManiObs,
        open_prefixes: Option<Vec<ManiState>>,
    },
    Store {
        obs: StoreObs,
    },
}

struct Runner {
    fx: Fixture,
    pristine: Pristine,
    /// a single allocation request above this is an "unbounded allocation attempt"
    limit: usize,
}

struct CaseResult {
    findings: Vec<(String, String)>,
    outcome: u64,
    nontrivial: bool,
    calls: u64,
    summary: String,
}

fn machinery(msg: &str) -> ! {
    eprintln!("damage: machinery error: {msg}");
    std::process::exit(2);
}

impl Runner {
    fn new(name: &str) -> Runner {
        let fx = fixtures::build_fixture(name);
        let limit = (64usize << 20).max(4 * fx.pristine().len());
        let scratch = Scratch::new("pristine");
        let dir = scratch.sub("d");
        fx.write_dir(&dir, None);
        let target = dir.join(fx.target_name());
        let mut ctx = Ctx::new(limit);
        let pristine = match (&fx.kind, &fx.truth) {
            (Kind::Sst, Truth::Sst { entries }) => {
                let probes = observe::load_probes(entries);
                let cap = entries.len() + 1;
                let obs = observe::observe_sst(&mut ctx, &target, &probes, cap);
                if !(obs.open.is_ok()
                    && obs.metadata.is_ok()
                    && obs.forward.1.is_ok()
                    && obs.backward.1.is_ok()
                    && obs.loads.iter().all(|l| l.is_ok()))
                {
                    machinery(&format!("pristine {name} does not read cleanly: {obs:?}"));
                }
                if &obs.forward.0 != entries {
                    machinery(&format!("pristine {name} does not hold what was put in"));
                }
                Pristine::Sst { obs, probes, cap }
            }
            (Kind::Log, Truth::Log { batches }) => {
                let lref = LogRef::new(batches);
                let cap = lref.flat.len() + 8;
                let obs = observe::observe_log(&mut ctx, &target, &scratch.sub("out.sst"), cap);
                let n = batches.len();
                let good = obs.drain.1.is_ok()
                    && obs.drain.0 == lref.flat
                    && obs.builder
                        == observe::Step::Ok(Some((
                            lref.prefix_sorted[n].clone(),
                            lref.prefix_digest[n],
                        )))
                    && obs.setsum == observe::Step::Ok(lref.prefix_hex[n].clone());
                if !good {
                    machinery(&format!(
                        "pristine {name} does not replay to what was appended: drain {} builder {} setsum {}",
                        obs.drain.1.class(),
                        obs.builder.class(),
                        obs.setsum.class()
                    ));
                }
                Pristine::Log { obs, lref, cap }
            }
            (Kind::Mani, Truth::Mani { edits }) => {
                let obs = observe::observe_mani(&mut ctx, &dir, &target);
                if !(obs.iter.1.is_ok() && obs.verify.is_ok() && obs.open.is_ok()) {
                    machinery(&format!("pristine {name} does not read cleanly: {obs:?}"));
                }
                let states = observe::mani_prefix_states(edits);
                if observe::Step::Ok(states.last().unwrap().clone()) != obs.open {
                    machinery(&format!(
                        "pristine {name}: Manifest::open state differs from the applied edits: {:?}",
                        obs.open
                    ));
                }
                if fx.target_name() == "MANIFEST" && !name.starts_with("mani-roll") {
                    if &obs.iter.0 != edits {
                        machinery(&format!("pristine {name}: iterator differs from applied edits"));
                    }
                }
                let open_prefixes = if fx.target_name() == "MANIFEST" {
                    Some(observe::mani_prefix_states(&obs.iter.0))
                } else {
                    None
                };
                Pristine::Mani { obs, open_prefixes }
            }
            (Kind::Store, _) => {
                let obs = observe::observe_store(&mut ctx, &dir);
                if !(obs.open.is_ok() && obs.scan.1.is_ok() && obs.loads.iter().all(|l| l.is_ok()))
                {
                    machinery(&format!("pristine {name} does not read cleanly: {obs:?}"));
                }
                if obs.scan.0.is_empty() {
                    machinery("pristine store is empty");
                }
                Pristine::Store { obs }
            }
            _ => unreachable!(),
        };
        Runner {
            fx,
            pristine,
            limit,
        }
    }

    fn cases(&self, thorough: bool) -> (Vec<Damage>, u64) {
        let unchecksummed = self.fx.unchecksummed();
        let plan = Plan {
            pristine: self.fx.pristine(),
            window: self.fx.window.as_deref(),
            unchecksummed: &unchecksummed,
            pairs: thorough && self.fx.kind != Kind::Store,
            only_unchecksummed_bitflips: self.fx.kind == Kind::Store,
        };
        damage::enumerate(&plan)
    }

    fn region_name(&self, d: &Damage) -> String {
        let offs = d.offsets(self.fx.pristine().len());
        let mut names: Vec<&str> = offs.iter().map(|o| self.fx.region_of(*o).name).collect();
        names.sort();
        names.dedup();
        names.join("+")
    }

    fn where_text(&self, d: &Damage) -> String {
        let offs = d.offsets(self.fx.pristine().len());
        let layout = if matches!(self.fx.kind, Kind::Sst | Kind::Store) {
            Some(fixtures::sst_layout(self.fx.pristine()))
        } else {
            None
        };
        offs.iter()
            .map(|o| {
                let r = self.fx.region_of(*o);
                let fine = match &layout {
                    Some(l) if *o < self.fx.pristine().len() => {
                        format!(", {}", fixtures::sst_describe_offset(l, *o))
                    }
                    _ => String::new(),
                };
                format!("offset {o} ({}{fine})", r.note)
            })
            .collect::<Vec<_>>()
            .join(" and ")
    }

    fn case_json(&self, d: &Damage) -> Value {
        json!({"fixture": self.fx.name, "damage": d.to_json()})
    }

    fn run_case(&self, scratch: &Scratch, d: &Damage) -> CaseResult {
        let damaged = damage::apply(
            self.fx.pristine(),
            d,
            &self.fx.last_record,
            &self.fx.separator,
        );
        let length_changed = damaged.len() != self.fx.pristine().len();
        let mut ctx = Ctx::new(self.limit);
        let dir = scratch.sub("d");
        let (findings, outcome, nontrivial, summary): (Vec<Finding>, u64, bool, String) =
            match &self.pristine {
                Pristine::Sst { obs, probes, cap } => {
                    let path = scratch.sub("t.sst");
                    std::fs::write(&path, &damaged).expect("write damaged file");
                    let got = observe::observe_sst(&mut ctx, &path, probes, *cap);
                    let f = observe::compare_sst(&got, obs, probes, length_changed);
                    let summary = format!(
                        "open {} metadata {} forward {}/{} backward {}/{}",
                        got.open.class(),
                        got.metadata.class(),
                        got.forward.0.len(),
                        got.forward.1.class(),
                        got.backward.0.len(),
                        got.backward.1.class()
                    );
                    (f, observe::sst_outcome(&got), got.open.is_ok(), summary)
                }
                Pristine::Log { obs, lref, cap } => {
                    let path = scratch.sub("t.log");
                    std::fs::write(&path, &damaged).expect("write damaged file");
                    let got = observe::observe_log(&mut ctx, &path, &scratch.sub("out.sst"), *cap);
                    let prefix_ok = d.is_truncate() || d.is_append();
                    let f = observe::compare_log(&got, obs, lref, prefix_ok);
                    let summary = format!(
                        "drain {}/{} log_to_builder {} log_to_setsum {}",
                        got.drain.0.len(),
                        got.drain.1.class(),
                        got.builder.class(),
                        got.setsum.class()
                    );
                    let nontrivial = !got.drain.0.is_empty();
                    (f, observe::log_outcome(&got), nontrivial, summary)
                }
                Pristine::Mani { obs, open_prefixes } => {
                    self.fx.write_dir(&dir, Some(&damaged));
                    let got = observe::observe_mani(&mut ctx, &dir, &dir.join(self.fx.target_name()));
                    let f = observe::compare_mani(
                        &got,
                        obs,
                        d.is_truncate(),
                        open_prefixes.as_deref(),
                    );
                    let summary = format!(
                        "iterator {}/{} verify {} open {}",
                        got.iter.0.len(),
                        got.iter.1.class(),
                        got.verify.class(),
                        got.open.class()
                    );
                    let nontrivial = !got.iter.0.is_empty();
                    (f, observe::mani_outcome(&got), nontrivial, summary)
                }
                Pristine::Store { obs } => {
                    self.fx.write_dir(&dir, Some(&damaged));
                    let got = observe::observe_store(&mut ctx, &dir);
                    let f = observe::compare_store(&got, obs);
                    let summary = format!(
                        "open {} scan {}/{}",
                        got.open.class(),
                        got.scan.0.len(),
                        got.scan.1.class()
                    );
                    (f, observe::store_outcome(&got), got.open.is_ok(), summary)
                }
            };
        let kind = self.fx.kind.name();
        let region = self.region_name(d);
        let class = d.class();
        let mut out: Vec<(String, String)> = vec![];
        for f in findings {
            let sig = format!("c09:{kind}:{region}:{class}:{}", f.what);
            if !out.iter().any(|(s, _)| *s == sig) {
                out.push((
                    sig,
                    format!(
                        "{} [{}] damaged at {}: {} -- {}",
                        self.fx.name,
                        f.class,
                        self.where_text(d),
                        f.detail,
                        summary
                    ),
                ));
            }
        }
        for (step, bytes) in ctx.big_allocs.iter() {
            let sig = format!("c09:{kind}:{region}:{class}:unbounded-allocation({step})");
            if !out.iter().any(|(s, _)| *s == sig) {
                out.push((
                    sig,
                    format!(
                        "{} damaged at {}: step {step} requested a single allocation of {bytes} bytes; the file has {} bytes (limit max(64 MiB, 4 x file size) = {}) -- {}",
                        self.fx.name,
                        self.where_text(d),
                        damaged.len(),
                        self.limit,
                        summary
                    ),
                ));
            }
        }
        CaseResult {
            findings: out,
            outcome: vcore::stable_hash(&(kind, outcome)),
            nontrivial,
            calls: ctx.calls,
            summary,
        }
    }
}

////////////////////////////////////////////// child ///////////////////////////////////////////////

fn slot_id() -> usize {
    static NEXT: AtomicUsize = AtomicUsize::new(0);
    thread_local! {
        static SLOT: usize = NEXT.fetch_add(1, Ordering::Relaxed);
    }
    SLOT.with(|s| *s)
}

const MAX_SLOTS: usize = 256;

fn child_main(args: &Args) {
    let name = args.get("fixture").expect("--fixture").to_string();
    let workdir = PathBuf::from(args.get("workdir").expect("--workdir"));
    let thorough = args.tier_thorough();
    // the subject prints from Manifest::verify; keep stdout quiet
    unsafe {
        let fd = libc::open(c"/dev/null".as_ptr(), libc::O_WRONLY);
        if fd >= 0 {
            libc::dup2(fd, 1);
        }
    }
    let runner = Runner::new(&name);
    let (mut cases, dropped) = runner.cases(thorough);
    if let Some(dj) = args.get("damage") {
        let v: Value = serde_json::from_str(dj).expect("--damage is JSON");
        cases = vec![Damage::from_json(&v)];
    }
    let skip: HashSet<usize> = args
        .get("skip")
        .map(|s| s.split(',').filter_map(|x| x.parse().ok()).collect())
        .unwrap_or_default();
    let only: Option<usize> = args.get("only").map(|s| s.parse().expect("--only"));
    let ahead = std::fs::OpenOptions::new()
        .create(true)
        .truncate(true)
        .read(true)
        .write(true)
        .open(workdir.join("ahead.bin"))
        .expect("ahead file");
    ahead
        .write_all_at(&vec![0u8; MAX_SLOTS * 8], 0)
        .expect("ahead init");
    let flags: Vec<AtomicU8> = (0..cases.len()).map(|_| AtomicU8::new(0)).collect();
    let chunk = if thorough { 1024 } else { 256 };
    let mut items: Vec<(usize, usize)> = vec![];
    match only {
        Some(i) => items.push((i, i + 1)),
        None => {
            let mut s = 0;
            while s < cases.len() {
                items.push((s, (s + chunk).min(cases.len())));
                s += chunk;
            }
        }
    }
    let threads = if only.is_some() { 1 } else { args.threads() };
    let job = format!("damage-{name}");
    let mk = || Report::new(&job, PROP);
    let total = vcore::parallel(items, threads, mk, |(lo, hi), rep| {
        let scratch = Scratch::new("dmg");
        let slot = slot_id() % MAX_SLOTS;
        for idx in *lo..*hi {
            if skip.contains(&idx) {
                rep.count("cases_skipped_after_abort", 1);
                continue;
            }
            let d = &cases[idx];
            ahead
                .write_all_at(&(idx as u64 + 1).to_le_bytes(), (slot * 8) as u64)
                .expect("write ahead");
            let r = runner.run_case(&scratch, d);
            rep.evaluations += 1;
            rep.traces_validated += 1;
            rep.transitions += r.calls;
            rep.outcomes.insert(r.outcome);
            flags[idx].store(if r.nontrivial { 3 } else { 1 }, Ordering::Relaxed);
            rep.count(&format!("cases:{}:{}", runner.fx.kind.name(), d.class()), 1);
            if idx % 4099 == 7 {
                rep.sample(json!({
                    "case": runner.case_json(d),
                    "region": runner.region_name(d),
                    "observed": r.summary,
                }));
            }
            if !r.findings.is_empty() {
                // replay before report
                let again = runner.run_case(&scratch, d);
                for (sig, detail) in r.findings.iter() {
                    if !again.findings.iter().any(|(s, _)| s == sig) {
                        rep.count("non_reproducible_findings", 1);
                        continue;
                    }
                    rep.violation(Violation {
                        property: PROP.to_string(),
                        signature: sig.clone(),
                        detail: detail.clone(),
                        case: runner.case_json(d),
                    });
                }
            }
        }
        ahead
            .write_all_at(&0u64.to_le_bytes(), (slot * 8) as u64)
            .expect("write ahead");
    });
    let flag_bytes: Vec<u8> = flags.iter().map(|f| f.load(Ordering::Relaxed)).collect();
    std::fs::write(workdir.join("flags.bin"), &flag_bytes).expect("flags");
    let result = json!({
        "fixture": name,
        "cases": cases.len(),
        "dropped_duplicate_overwrites": dropped,
        "evaluations": total.evaluations,
        "transitions": total.transitions,
        "outcomes": total.outcomes.iter().collect::<Vec<_>>(),
        "samples": total.samples,
        "violations": total.violations.iter().map(|v| json!({
            "signature": v.signature, "detail": v.detail, "case": v.case,
        })).collect::<Vec<_>>(),
        "violation_sigs": total.violation_sigs,
        "counters": total.counters,
        "describe": runner.fx.describe,
        "global_max_alloc": alloc::global_max(),
    });
    let tmp = workdir.join("result.json.tmp");
    std::fs::write(&tmp, serde_json::to_string(&result).unwrap()).expect("result");
    std::fs::rename(&tmp, workdir.join("result.json")).expect("rename result");
}

////////////////////////////////////////////// parent //////////////////////////////////////////////

enum ChildEnd {
    Clean,
    /// killed by a signal / non-zero exit / timeout; text for the report
    Died(String),
}

fn spawn_child(
    name: &str,
    tier: &str,
    workdir: &Path,
    threads: usize,
    extra: &[(&str, String)],
    timeout: Duration,
) -> ChildEnd {
    let _ = std::fs::remove_file(workdir.join("result.json"));
    let exe = std::env::current_exe().expect("current_exe");
    let stderr = std::fs::File::create(workdir.join("stderr.txt")).expect("stderr file");
    let mut cmd = std::process::Command::new(exe);
    cmd.arg("--child")
        .arg("--fixture")
        .arg(name)
        .arg("--tier")
        .arg(tier)
        .arg("--workdir")
        .arg(workdir)
        .arg("--threads")
        .arg(threads.to_string());
    for (k, v) in extra {
        cmd.arg(format!("--{k}")).arg(v);
    }
    cmd.stdout(std::process::Stdio::null()).stderr(stderr);
    let mut child = cmd.spawn().expect("spawn child");
    let start = Instant::now();
    loop {
        match child.try_wait().expect("wait") {
            Some(st) => {
                if st.success() && workdir.join("result.json").exists() {
                    return ChildEnd::Clean;
                }
                let how = match (st.signal(), st.code()) {
                    (Some(s), _) => format!("killed by signal {s}"),
                    (_, Some(c)) => format!("exit code {c}"),
                    _ => "unknown".into(),
                };
                if st.code() == Some(2) {
                    let e = std::fs::read_to_string(workdir.join("stderr.txt")).unwrap_or_default();
                    machinery(&format!("child for {name} reported: {e}"));
                }
                return ChildEnd::Died(how);
            }
            None => {
                if start.elapsed() > timeout {
                    let _ = child.kill();
                    let _ = child.wait();
                    return ChildEnd::Died(format!("hang (no result after {} s)", timeout.as_secs()));
                }
                std::thread::sleep(Duration::from_millis(20));
            }
        }
    }
}

fn in_flight(workdir: &Path) -> Vec<usize> {
    let b = std::fs::read(workdir.join("ahead.bin")).unwrap_or_default();
    let mut v = vec![];
    for c in b.chunks(8) {
        if c.len() == 8 {
            let x = u64::from_le_bytes(c.try_into().unwrap());
            if x > 0 {
                v.push((x - 1) as usize);
            }
        }
    }
    v.sort();
    v.dedup();
    v
}

fn stderr_tail(workdir: &Path) -> String {
    let s = std::fs::read_to_string(workdir.join("stderr.txt")).unwrap_or_default();
    let lines: Vec<&str> = s.lines().rev().take(4).collect();
    lines.into_iter().rev().collect::<Vec<_>>().join(" | ")
}

fn parent_main(args: &Args) {
    let thorough = args.tier_thorough();
    let tier = if thorough { "thorough" } else { "quick" };
    let threads = args.threads();
    let names: Vec<String> = match args.get("fixtures") {
        Some(s) => s.split(',').map(|x| x.to_string()).collect(),
        None => fixtures::fixture_names(thorough),
    };
    let mut total = Report::new("damage", PROP);
    total.max_samples = 12;
    let work = Scratch::new("damage-parent");
    let per_case_timeout = Duration::from_secs(60);
    let sweep_timeout = Duration::from_secs(if thorough { 1500 } else { 300 });
    let mut fixtures_json = vec![];
    for name in names.iter() {
        let started = Instant::now();
        let runner = Runner::new(name);
        let (cases, dropped) = runner.cases(thorough);
        total.pruned_noops += dropped;
        let workdir = work.sub(name);
        std::fs::create_dir_all(&workdir).expect("workdir");
        let mut skip: Vec<usize> = vec![];
        let mut restarts = 0;
        loop {
            let mut extra: Vec<(&str, String)> = vec![];
            if !skip.is_empty() {
                extra.push((
                    "skip",
                    skip.iter().map(|i| i.to_string()).collect::<Vec<_>>().join(","),
                ));
            }
            match spawn_child(name, tier, &workdir, threads, &extra, sweep_timeout) {
                ChildEnd::Clean => break,
                ChildEnd::Died(how) => {
                    restarts += 1;
                    let tail = stderr_tail(&workdir);
                    let cands = in_flight(&workdir);
                    let mut culprits = vec![];
                    for idx in cands.iter() {
                        // replay before report: the case must bring a child down twice, alone
                        let one = work.sub(&format!("{name}-one"));
                        std::fs::create_dir_all(&one).expect("workdir");
                        let mut ends = vec![];
                        for _ in 0..2 {
                            let e = spawn_child(
                                name,
                                tier,
                                &one,
                                1,
                                &[("only", idx.to_string())],
                                per_case_timeout,
                            );
                            match e {
                                ChildEnd::Clean => break,
                                ChildEnd::Died(h) => ends.push((h, stderr_tail(&one))),
                            }
                        }
                        if ends.len() == 2 {
                            culprits.push(*idx);
                            let d = &cases[*idx];
                            let what = if ends[0].0.starts_with("hang") {
                                "hang".to_string()
                            } else {
                                format!("abort({})", ends[0].0)
                            };
                            total.violation(Violation {
                                property: PROP.to_string(),
                                signature: format!(
                                    "c09:{}:{}:{}:{what}",
                                    runner.fx.kind.name(),
                                    runner.region_name(d),
                                    d.class()
                                ),
                                detail: format!(
                                    "{} damaged at {}: the reading process did not survive ({}); stderr: {}",
                                    name,
                                    runner.where_text(d),
                                    ends[0].0,
                                    ends[0].1
                                ),
                                case: runner.case_json(d),
                            });
                        }
                    }
                    if culprits.is_empty() {
                        total.count("unattributed_child_deaths", 1);
                        total.notes.insert(
                            format!("unattributed_child_death:{name}"),
                            json!({"how": how, "stderr": tail, "in_flight": cands}),
                        );
                        if restarts >= 2 {
                            total.cap(&format!(
                                "sweep of {name} abandoned: the child died ({how}) and no single case reproduces it"
                            ));
                            break;
                        }
                    }
                    skip.extend(culprits);
                    if restarts >= 8 {
                        total.cap(&format!("sweep of {name} abandoned after 8 child deaths"));
                        break;
                    }
                }
            }
        }
        // merge the child's result
        let Ok(rs) = std::fs::read_to_string(workdir.join("result.json")) else {
            fixtures_json.push(json!({"fixture": name, "completed": false}));
            continue;
        };
        let r: Value = serde_json::from_str(&rs).expect("child result is JSON");
        if r["cases"].as_u64() != Some(cases.len() as u64) {
            machinery(&format!("child and parent enumerate {name} differently"));
        }
        let mut part = Report::new("damage", PROP);
        part.evaluations = r["evaluations"].as_u64().unwrap_or(0);
        part.traces_validated = part.evaluations;
        part.transitions = r["transitions"].as_u64().unwrap_or(0);
        for o in r["outcomes"].as_array().unwrap() {
            part.outcomes.insert(o.as_u64().unwrap());
        }
        for s in r["samples"].as_array().unwrap().iter().take(2) {
            part.samples.push(s.clone());
        }
        for v in r["violations"].as_array().unwrap() {
            part.violations.push(Violation {
                property: PROP.to_string(),
                signature: v["signature"].as_str().unwrap().to_string(),
                detail: v["detail"].as_str().unwrap().to_string(),
                case: v["case"].clone(),
            });
        }
        for (k, n) in r["violation_sigs"].as_object().unwrap() {
            part.violation_sigs.insert(k.clone(), n.as_u64().unwrap());
        }
        for (k, n) in r["counters"].as_object().unwrap() {
            part.counters.insert(k.clone(), n.as_u64().unwrap());
        }
        let flags = std::fs::read(workdir.join("flags.bin")).unwrap_or_default();
        let mut nontrivial = 0u64;
        for (idx, f) in flags.iter().enumerate() {
            if *f & 1 == 1 {
                let h = vcore::stable_hash(&(name.as_str(), idx));
                part.states.insert(h);
                if *f & 2 == 2 {
                    part.nontrivial.insert(h);
                    nontrivial += 1;
                }
            }
        }
        let mut region_sizes = serde_json::Map::new();
        for reg in runner.fx.regions.iter() {
            let e = region_sizes.entry(reg.name.to_string()).or_insert(json!(0));
            *e = json!(e.as_u64().unwrap() + reg.range.len() as u64);
        }
        fixtures_json.push(json!({
            "fixture": name,
            "describe": r["describe"],
            "region_bytes": region_sizes,
            "cases": cases.len(),
            "cases_past_the_first_gate": nontrivial,
            "distinct_outcomes": part.outcomes.len(),
            "largest_allocation_request": r["global_max_alloc"],
            "wall_s": started.elapsed().as_secs_f64(),
        }));
        total.merge(part);
    }
    if total.outcomes.len() <= 1 && total.evaluations > 0 {
        machinery("one distinct outcome over all cases: the harness is vacuous");
    }
    total.bound = json!({
        "tier": tier,
        "damage_per_file": {
            "byte": "every offset (inside the window, where one is stated): 8 single-bit flips and the overwrites {0x00, 0xFF, b^0x80, b+1}, identical results merged",
            "truncate": "every length 0..len-1 (inside the window, plus 0)",
            "append": damage::SUFFIXES.iter().map(|s| s.name()).collect::<Vec<_>>(),
            "pairs": if thorough { "all pairs of single-byte damages at two distinct offsets of the regions no checksum covers (SST final block + trailing offset; log headers + padding; manifest crc digits + separator lines)" } else { "thorough tier only" },
            "store": if thorough { "every bit of the final block and trailing offset of each SST of a 2-SST store" } else { "thorough tier only" },
        },
        "fixtures": fixtures_json,
    });
    total.rule = "every case is one damaged copy of one pristine file produced by the real builders; the full read program of the file kind runs on it (SST: Sst::new, metadata, forward walk, backward walk, load of every key at several timestamps and of absent keys; log: LogIterator drain, log_to_builder into an SstBuilder, log_to_setsum; manifest: ManifestIterator drain, Manifest::verify, Manifest::open + strs/info; store: KeyValueStore::open, loads, full scan) and every step must return an error or exactly what the same step returned on the pristine file (entries produced before an error must be a prefix of the pristine ones). Accepted by contract: a truncated or extended log may read as a prefix of whole batches then end or error (C12); a truncated manifest may read as a prefix of whole edits (C13); SstMetadata.file_size of a file whose length changed. distinct = (fixture, damage) after merging overwrites that produce the same bytes; non-trivial = the damaged file got past the first gate (Sst::new / first log entry / first manifest edit / KeyValueStore::open succeeded), so deeper code ran on damaged input; outcome = per-step result classes (ok / error code / panic) with entry counts. Sweeps run in a child process per file with the in-flight case index written ahead; a single allocation request above max(64 MiB, 4 x file size) is flagged.".into();
    total.assumptions = vec![
        "damage is applied to one file at a time; the other files of a manifest directory or store stay pristine".into(),
        "for the two ~1 MiB logs byte damage and truncation are restricted to the stated windows (all headers +-16 bytes, the padding, 64 bytes either side of the 1 MiB boundary, the last 32 bytes)".into(),
        "the counting allocator throttles requests >= 64 MiB to 4 at a time and refuses requests >= 8 GiB (the process then aborts and the parent records it)".into(),
    ];
    total.finish(args, "damage");
    let sigs: Vec<String> = total
        .violation_sigs
        .iter()
        .map(|(s, n)| format!("{n:>8}  {s}"))
        .collect();
    eprintln!(
        "damage: {} cases, {} past the first gate, {} outcomes, {} signatures, {:.1} s\n{}",
        total.evaluations,
        total.nontrivial.len(),
        total.outcomes.len(),
        total.violation_sigs.len(),
        total.started.elapsed().as_secs_f64(),
        sigs.join("\n")
    );
}

////////////////////////////////////////////// replay //////////////////////////////////////////////

fn replay(rf: &Value) {
    let case = &rf["case"];
    let name = case["fixture"].as_str().expect("case.fixture").to_string();
    let d = Damage::from_json(&case["damage"]);
    let want = rf["signature"].as_str().unwrap_or("").to_string();
    println!("replaying {name} with damage {}", d.to_json());
    if want.contains(":abort(") || want.ends_with(":hang") {
        let work = Scratch::new("damage-replay");
        let end = spawn_child(
            &name,
            "quick",
            &work.path,
            1,
            &[("damage", d.to_json().to_string()), ("only", "0".to_string())],
            Duration::from_secs(60),
        );
        match end {
            ChildEnd::Clean => {
                println!("expected: the reader returns; observed: it returned");
                std::process::exit(0);
            }
            ChildEnd::Died(how) => {
                println!(
                    "expected: the reader returns an error or the pristine data; observed: the process {how}; stderr: {}",
                    stderr_tail(&work.path)
                );
                println!("REPRODUCED {want}");
                std::process::exit(1);
            }
        }
    }
    let runner = Runner::new(&name);
    let scratch = Scratch::new("replay");
    let r = runner.run_case(&scratch, &d);
    println!("damage at {}", runner.where_text(&d));
    println!("expected: every read step returns an error or exactly the pristine observation");
    println!("observed: {}", r.summary);
    let mut hit = false;
    for (sig, detail) in r.findings.iter() {
        println!("finding {sig}: {detail}");
        if *sig == want {
            hit = true;
        }
    }
    if r.findings.is_empty() {
        println!("no finding: the property holds on this case");
    }
    if hit {
        println!("REPRODUCED {want}");
    }
    std::io::stdout().flush().ok();
    std::process::exit(if r.findings.is_empty() { 0 } else { 1 });
}

fn main() {
    let args = Args::parse();
    vcore::quiet_panics();
    if args.flag("child") {
        child_main(&args);
        return;
    }
    if let Some(rf) = args.replay_case() {
        replay(&rf);
        return;
    }
    parent_main(&args);
}
