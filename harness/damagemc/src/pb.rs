//! A minimal, independent reader of the protobuf wire format, used only to work out the region
//! boundaries of pristine files (never to judge the subject's parsing).

use std::ops::Range;

pub fn varint(buf: &[u8], pos: &mut usize) -> Option<u64> {
    let mut v: u64 = 0;
    let mut shift = 0;
    loop {
        let b = *buf.get(*pos)?;
        *pos += 1;
        if shift < 64 {
            v |= ((b & 0x7f) as u64) << shift;
        }
        shift += 7;
        if b & 0x80 == 0 {
            return Some(v);
        }
        if shift > 70 {
            return None;
        }
    }
}

#[derive(Clone, Debug)]
pub enum Val {
    Varint(u64),
    Fixed64(u64),
    Fixed32(u32),
    /// range of the body inside the parsed buffer
    Bytes(Range<usize>),
}

#[derive(Clone, Debug)]
pub struct Field {
    pub number: u32,
    /// tag + length prefix + body
    pub whole: Range<usize>,
    pub val: Val,
}

/// Top-level fields of `buf[range]`; offsets are absolute in `buf`.
pub fn fields(buf: &[u8], range: Range<usize>) -> Option<Vec<Field>> {
    let end = range.end;
    let mut pos = range.start;
    let mut out = vec![];
    while pos < end {
        let start = pos;
        let tag = varint(&buf[..end], &mut pos)?;
        let number = (tag >> 3) as u32;
        let val = match tag & 7 {
            0 => Val::Varint(varint(&buf[..end], &mut pos)?),
            1 => {
                if pos + 8 > end {
                    return None;
                }
                let v = u64::from_le_bytes(buf[pos..pos + 8].try_into().unwrap());
                pos += 8;
                Val::Fixed64(v)
            }
            5 => {
                if pos + 4 > end {
                    return None;
                }
                let v = u32::from_le_bytes(buf[pos..pos + 4].try_into().unwrap());
                pos += 4;
                Val::Fixed32(v)
            }
            2 => {
                let n = varint(&buf[..end], &mut pos)? as usize;
                if pos + n > end {
                    return None;
                }
                let r = pos..pos + n;
                pos += n;
                Val::Bytes(r)
            }
            _ => return None,
        };
        out.push(Field {
            number,
            whole: start..pos,
            val,
        });
    }
    Some(out)
}
