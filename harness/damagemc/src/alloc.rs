//! A counting global allocator: remembers the largest single request per thread (and globally),
//! throttles very large requests so that a sweep on 16 threads cannot exhaust memory, and refuses
//! absurd ones (the process then aborts, which the parent observes).

use std::alloc::{GlobalAlloc, Layout, System};
use std::cell::Cell;
use std::sync::atomic::{AtomicUsize, Ordering};

pub struct CountingAlloc;

thread_local! {
    static T_MAX: Cell<usize> = const { Cell::new(0) };
}
static G_MAX: AtomicUsize = AtomicUsize::new(0);
static BIG_INFLIGHT: AtomicUsize = AtomicUsize::new(0);

/// Requests at least this large are throttled.
pub const BIG: usize = 64 << 20;
const BIG_PERMITS: usize = 4;
/// Requests at least this large are refused (null), which makes std abort the process.
pub const REFUSE: usize = 8 << 30;

fn note(size: usize) {
    let _ = T_MAX.try_with(|m| {
        if size > m.get() {
            m.set(size)
        }
    });
    G_MAX.fetch_max(size, Ordering::Relaxed);
}

fn acquire() {
    let mut waited = 0u32;
    loop {
        let cur = BIG_INFLIGHT.load(Ordering::Relaxed);
        if cur < BIG_PERMITS || waited > 5000 {
            if BIG_INFLIGHT
                .compare_exchange(cur, cur + 1, Ordering::AcqRel, Ordering::Relaxed)
                .is_ok()
            {
                return;
            }
        } else {
            unsafe { libc::usleep(1000) };
            waited += 1;
        }
    }
}

fn release() {
    BIG_INFLIGHT.fetch_sub(1, Ordering::AcqRel);
}

fn refuse(size: usize) {
    // no allocation here: format by hand
    let mut buf = [0u8; 64];
    let msg = b"damagemc: refusing allocation request of bytes=";
    let mut n = 0;
    for b in msg {
        buf[n] = *b;
        n += 1;
    }
    let mut digits = [0u8; 20];
    let mut d = 0;
    let mut s = size;
    loop {
        digits[d] = b'0' + (s % 10) as u8;
        d += 1;
        s /= 10;
        if s == 0 {
            break;
        }
    }
    while d > 0 && n < 63 {
        d -= 1;
        buf[n] = digits[d];
        n += 1;
    }
    buf[n] = b'\n';
    n += 1;
    unsafe { libc::write(2, buf.as_ptr() as *const libc::c_void, n) };
}

unsafe impl GlobalAlloc for CountingAlloc {
    unsafe fn alloc(&self, layout: Layout) -> *mut u8 {
        let size = layout.size();
        note(size);
        if size >= REFUSE {
            refuse(size);
            return std::ptr::null_mut();
        }
        if size >= BIG {
            acquire();
        }
        unsafe { System.alloc(layout) }
    }

    unsafe fn alloc_zeroed(&self, layout: Layout) -> *mut u8 {
        let size = layout.size();
        note(size);
        if size >= REFUSE {
            refuse(size);
            return std::ptr::null_mut();
        }
        if size >= BIG {
            acquire();
        }
        unsafe { System.alloc_zeroed(layout) }
    }

    unsafe fn dealloc(&self, ptr: *mut u8, layout: Layout) {
        unsafe { System.dealloc(ptr, layout) };
        if layout.size() >= BIG {
            release();
        }
    }

    unsafe fn realloc(&self, ptr: *mut u8, layout: Layout, new_size: usize) -> *mut u8 {
        note(new_size);
        if new_size >= REFUSE {
            refuse(new_size);
            return std::ptr::null_mut();
        }
        let was_big = layout.size() >= BIG;
        let is_big = new_size >= BIG;
        if is_big && !was_big {
            acquire();
        }
        let p = unsafe { System.realloc(ptr, layout, new_size) };
        if was_big && !is_big && !p.is_null() {
            release();
        }
        p
    }
}

/// Forget the largest request of this thread.
pub fn reset_thread_max() {
    let _ = T_MAX.try_with(|m| m.set(0));
}

/// Largest single request of this thread since the last reset.
pub fn thread_max() -> usize {
    T_MAX.try_with(|m| m.get()).unwrap_or(0)
}

pub fn reset_global_max() {
    G_MAX.store(0, Ordering::Relaxed);
}

pub fn global_max() -> usize {
    G_MAX.load(Ordering::Relaxed)
}
