//! Pristine files, produced deterministically by the real builders on tmpfs, and their region
//! maps worked out independently from the file formats.

use std::ops::Range;
use std::path::Path;

use arrrg::CommandLine;
use mani::{Edit, Manifest, ManifestOptions};
use sst::block::BlockBuilderOptions;
use sst::log::WriteBatch;
use sst::{Builder, LogBuilder, LogOptions, SstBuilder, SstOptions};
use vcore::{Scratch, Value, json};

use crate::pb;

#[derive(Clone, Copy, Debug, PartialEq, Eq, Hash)]
pub enum Kind {
    Sst,
    Log,
    Mani,
    Store,
}

impl Kind {
    pub fn name(&self) -> &'static str {
        match self {
            Kind::Sst => "sst",
            Kind::Log => "log",
            Kind::Mani => "mani",
            Kind::Store => "store",
        }
    }
}

#[derive(Clone, Debug)]
pub struct Region {
    pub name: &'static str,
    pub range: Range<usize>,
    pub checksummed: bool,
    /// finer description for the detail text
    pub note: String,
}

#[derive(Clone, Debug, PartialEq, Eq, PartialOrd, Ord, Hash)]
pub struct Entry {
    pub key: Vec<u8>,
    pub ts: u64,
    pub value: Option<Vec<u8>>,
}

/// The order SSTs hold entries in: key ascending, then timestamp descending.
pub fn entry_order(a: &Entry, b: &Entry) -> std::cmp::Ordering {
    a.key.cmp(&b.key).then(b.ts.cmp(&a.ts))
}

#[derive(Clone, Debug, Default, PartialEq, Eq)]
pub struct EditM {
    pub rm: Vec<String>,
    pub add: Vec<String>,
    pub info: Vec<(char, String)>,
}

pub enum Truth {
    Sst { entries: Vec<Entry> },
    Log { batches: Vec<Vec<Entry>> },
    /// the edits applied through the real Manifest, in order (across a rollover)
    Mani { edits: Vec<EditM> },
    Store,
}

pub struct Fixture {
    pub name: String,
    pub kind: Kind,
    /// every file of the directory (relative path, bytes)
    pub files: Vec<(String, Vec<u8>)>,
    /// the file that gets damaged
    pub target: usize,
    pub regions: Vec<Region>,
    /// where byte damage and truncation is applied (None: everywhere)
    pub window: Option<Vec<Range<usize>>>,
    pub last_record: Vec<u8>,
    pub separator: Vec<u8>,
    pub truth: Truth,
    pub describe: Value,
}

impl Fixture {
    pub fn pristine(&self) -> &[u8] {
        &self.files[self.target].1
    }

    pub fn region_of(&self, off: usize) -> &Region {
        static END: std::sync::OnceLock<Region> = std::sync::OnceLock::new();
        self.regions
            .iter()
            .find(|r| r.range.contains(&off))
            .unwrap_or_else(|| {
                END.get_or_init(|| Region {
                    name: "end",
                    range: 0..0,
                    checksummed: false,
                    note: "end of file".into(),
                })
            })
    }

    pub fn unchecksummed(&self) -> Vec<Range<usize>> {
        self.regions
            .iter()
            .filter(|r| !r.checksummed)
            .map(|r| r.range.clone())
            .collect()
    }

    /// Materialise the directory with `damaged` in place of the target file.
    pub fn write_dir(&self, dir: &Path, damaged: Option<&[u8]>) {
        let _ = std::fs::remove_dir_all(dir);
        std::fs::create_dir_all(dir).expect("mkdir");
        for (i, (name, bytes)) in self.files.iter().enumerate() {
            let p = dir.join(name);
            if let Some(parent) = p.parent() {
                std::fs::create_dir_all(parent).expect("mkdir");
            }
            let b: &[u8] = match damaged {
                Some(d) if i == self.target => d,
                _ => bytes,
            };
            std::fs::write(&p, b).expect("write fixture file");
        }
    }

    pub fn target_name(&self) -> &str {
        &self.files[self.target].0
    }
}

pub const SST_ROWS: [&str; 3] = ["r0", "r1", "r2"];

/// r0: defaults (bloom 17 bits, restart every 16 pairs); r1: bloom 5 bits, restart every pair;
/// r2: bloom 0 bits (one filter block), default restarts.
pub fn sst_options(row: &str) -> SstOptions {
    let (bits, pairs) = match row {
        "r0" => ("17", 16u32),
        "r1" => ("5", 1),
        "r2" => ("0", 16),
        _ => panic!("no SstOptions row {row}"),
    };
    let (o, free) = SstOptions::from_arguments_relaxed("verif", &["--bloom-filter-bits", bits]);
    assert!(free.is_empty());
    let d = format!("{o:?}");
    assert!(
        d.contains(&format!("bloom_filter_bits: {bits}")),
        "option parser produced {d}"
    );
    o.block(BlockBuilderOptions::default().key_value_pairs_restart_interval(pairs))
        .target_block_size(4096)
}

fn filler(tag: &str, n: usize) -> Vec<u8> {
    let mut v = tag.as_bytes().to_vec();
    while v.len() < n {
        v.push(b'a' + (v.len() % 26) as u8);
    }
    v.truncate(n);
    v
}

/// n base keys sharing a long prefix; key 2 has three versions (the oldest a tombstone); every
/// fifth key is a tombstone; key 1 carries a ~1.4 KiB value; one key extends another.
pub fn sst_entries(n: usize) -> Vec<Entry> {
    let mut v = vec![];
    for i in 0..n {
        let key = format!("user/profile/{i:04}").into_bytes();
        let ts = 10 + 3 * i as u64;
        if i == 1 {
            v.push(Entry {
                key,
                ts,
                value: Some(filler("big-", 1400)),
            });
        } else if i == 2 {
            v.push(Entry {
                key: key.clone(),
                ts: 90,
                value: Some(b"newest".to_vec()),
            });
            v.push(Entry {
                key: key.clone(),
                ts: 70,
                value: Some(filler("middle-", 40)),
            });
            v.push(Entry {
                key,
                ts: 50,
                value: None,
            });
        } else if i % 5 == 4 {
            v.push(Entry {
                key,
                ts,
                value: None,
            });
        } else {
            v.push(Entry {
                key,
                ts,
                value: Some(filler(&format!("v{i}-"), 60 + (i * 7) % 50)),
            });
        }
        if i == 3 {
            v.push(Entry {
                key: b"user/profile/0003/extra".to_vec(),
                ts: 11,
                value: Some(b"".to_vec()),
            });
        }
    }
    v.sort_by(entry_order);
    v
}

fn build_sst_file(opts: SstOptions, entries: &[Entry], path: &Path) {
    let mut b = SstBuilder::new(opts, path).expect("SstBuilder::new");
    for e in entries {
        match &e.value {
            Some(v) => b.put(&e.key, e.ts, v).expect("put"),
            None => b.del(&e.key, e.ts).expect("del"),
        }
    }
    drop(b.seal().expect("seal"));
}

#[derive(Clone, Debug)]
pub struct SstLayout {
    pub data_blocks: Vec<Range<usize>>,
    /// (tag + length prefix, body) of every SstEntry record (data, index, filter)
    pub entry_headers: Vec<Range<usize>>,
    pub index: Range<usize>,
    pub filter: Range<usize>,
    pub final_block: Range<usize>,
    pub trailing: Range<usize>,
    pub final_fields: Vec<(String, Range<usize>)>,
}

/// Independent parse of the SST container format (sst/src/lib.rs: a sequence of SstEntry records,
/// the FinalBlock message whose last field is the fixed64 offset of the final block).
pub fn sst_layout(b: &[u8]) -> SstLayout {
    let len = b.len();
    assert!(len >= 8);
    let fbo = u64::from_le_bytes(b[len - 8..].try_into().unwrap()) as usize;
    assert!(fbo < len - 8, "final block offset");
    let top = pb::fields(b, fbo..len).expect("final block parses");
    let mut index = 0..0;
    let mut filter = 0..0;
    let mut final_fields = vec![];
    let meta = |f: &pb::Field| -> Range<usize> {
        let pb::Val::Bytes(r) = &f.val else {
            panic!("block metadata is not a message")
        };
        let inner = pb::fields(b, r.clone()).expect("block metadata parses");
        let mut start = None;
        let mut limit = None;
        for g in inner {
            match (g.number, &g.val) {
                (13, pb::Val::Varint(x)) => start = Some(*x as usize),
                (14, pb::Val::Varint(x)) => limit = Some(*x as usize),
                _ => {}
            }
        }
        start.unwrap_or(0)..limit.unwrap()
    };
    for f in top.iter() {
        let name = match f.number {
            16 => {
                index = meta(f);
                "index_block"
            }
            17 => {
                filter = meta(f);
                "filter_block"
            }
            19 => "setsum",
            20 => "smallest_timestamp",
            21 => "biggest_timestamp",
            18 => "final_block_offset",
            n => panic!("unexpected final block field {n}"),
        };
        final_fields.push((name.to_string(), f.whole.clone()));
    }
    assert!(index.end == filter.start && filter.end == fbo, "layout");
    let mut data_blocks = vec![];
    let mut entry_headers = vec![];
    let mut pos = 0;
    while pos < fbo {
        let start = pos;
        let tag = pb::varint(b, &mut pos).unwrap();
        assert!(tag & 7 == 2);
        let n = pb::varint(b, &mut pos).unwrap() as usize;
        entry_headers.push(start..pos);
        pos += n;
        if pos <= index.start {
            data_blocks.push(start..pos);
        }
    }
    assert!(pos == fbo);
    SstLayout {
        data_blocks,
        entry_headers,
        index,
        filter,
        final_block: fbo..len - 8,
        trailing: len - 8..len,
        final_fields,
    }
}

fn sst_regions(l: &SstLayout) -> Vec<Region> {
    let mut v = vec![];
    for (i, r) in l.data_blocks.iter().enumerate() {
        v.push(Region {
            name: "data-block",
            range: r.clone(),
            checksummed: true,
            note: format!("data block {i}"),
        });
    }
    v.push(Region {
        name: "index-block",
        range: l.index.clone(),
        checksummed: true,
        note: "index block".into(),
    });
    v.push(Region {
        name: "filter-block",
        range: l.filter.clone(),
        checksummed: true,
        note: "filter block".into(),
    });
    v.push(Region {
        name: "final-block",
        range: l.final_block.clone(),
        checksummed: false,
        note: "final block".into(),
    });
    v.push(Region {
        name: "trailing-offset",
        range: l.trailing.clone(),
        checksummed: false,
        note: "trailing 8-byte offset".into(),
    });
    v
}

/// A finer description of an SST offset for detail texts.
pub fn sst_describe_offset(l: &SstLayout, off: usize) -> String {
    if let Some((n, r)) = l.final_fields.iter().find(|(_, r)| r.contains(&off)) {
        return format!("final block field {n} byte {}", off - r.start);
    }
    if l.entry_headers.iter().any(|r| r.contains(&off)) {
        return "record tag/length prefix (outside the block crc)".into();
    }
    if l.index.contains(&off) {
        return "index block body".into();
    }
    if l.filter.contains(&off) {
        return "filter block body".into();
    }
    if let Some(i) = l.data_blocks.iter().position(|r| r.contains(&off)) {
        return format!("data block {i} body");
    }
    "?".into()
}

fn build_sst_fixture(name: &str, row: &str, blocks: usize) -> Fixture {
    let scratch = Scratch::new("fix");
    // one block: a half-full block; two and three blocks: the smallest file that has them
    let mut n = if blocks == 1 { 12 } else { 13 };
    loop {
        let entries = sst_entries(n);
        let path = scratch.sub(&format!("{n}.sst"));
        build_sst_file(sst_options(row), &entries, &path);
        let bytes = std::fs::read(&path).expect("read sst");
        let layout = sst_layout(&bytes);
        if layout.data_blocks.len() == blocks {
            let last_record = bytes[layout.final_block.start..].to_vec();
            return Fixture {
                name: name.to_string(),
                kind: Kind::Sst,
                regions: sst_regions(&layout),
                window: None,
                last_record,
                // an empty PlainBlock record
                separator: vec![0x52, 0x00],
                truth: Truth::Sst { entries },
                describe: json!({
                    "kind": "sst", "options_row": row, "data_blocks": blocks, "bytes": bytes.len(),
                    "base_keys": n,
                    "final_block": [layout.final_block.start, layout.final_block.end],
                }),
                files: vec![("t.sst".to_string(), bytes)],
                target: 0,
            };
        }
        assert!(
            layout.data_blocks.len() < blocks && n < 400,
            "cannot reach {blocks} data blocks"
        );
        n += 1;
    }
}

////////////////////////////////////////////// logs ////////////////////////////////////////////////

#[derive(Clone, Debug)]
pub struct Frame {
    pub header: Range<usize>,
    pub payload: Range<usize>,
    pub discriminant: u64,
}

const LOG_BLOCK: usize = 1 << 20;

/// Independent parse of the log framing (sst/src/log.rs): one length byte, a Header message
/// {10: size, 11: discriminant, 12: crc32c}, `size` payload bytes; a zero length byte starts the
/// zero padding up to the next 1 MiB boundary.
pub fn log_layout(b: &[u8]) -> (Vec<Region>, Vec<Frame>) {
    let mut regions = vec![];
    let mut frames = vec![];
    let mut pos = 0;
    while pos < b.len() {
        let hsz = b[pos] as usize;
        if hsz == 0 {
            let nb = (pos / LOG_BLOCK + 1) * LOG_BLOCK;
            let end = nb.min(b.len());
            assert!(b[pos..end].iter().all(|x| *x == 0), "padding is zero");
            regions.push(Region {
                name: "padding",
                range: pos..end,
                checksummed: false,
                note: "zero padding before the block boundary".into(),
            });
            pos = end;
            continue;
        }
        let header = pos..pos + 1 + hsz;
        let fs = pb::fields(b, pos + 1..pos + 1 + hsz).expect("log header parses");
        let mut size = 0usize;
        let mut disc = 0;
        for f in fs {
            match (f.number, &f.val) {
                (10, pb::Val::Varint(x)) => size = *x as usize,
                (11, pb::Val::Varint(x)) => disc = *x,
                _ => {}
            }
        }
        let payload = header.end..header.end + size;
        assert!(payload.end <= b.len());
        regions.push(Region {
            name: "header",
            range: header.clone(),
            checksummed: false,
            note: format!("frame {} header (discriminant {disc})", frames.len()),
        });
        regions.push(Region {
            name: "payload",
            range: payload.clone(),
            checksummed: true,
            note: format!("frame {} payload", frames.len()),
        });
        pos = payload.end;
        frames.push(Frame {
            header,
            payload,
            discriminant: disc,
        });
    }
    (regions, frames)
}

fn batch_of(entries: &[Entry]) -> WriteBatch {
    let mut wb = WriteBatch::default();
    for e in entries {
        match &e.value {
            Some(v) => wb.put(&e.key, e.ts, v).expect("wb.put"),
            None => wb.del(&e.key, e.ts).expect("wb.del"),
        }
    }
    wb
}

fn build_log_file(batches: &[Vec<Entry>], path: &Path) -> Vec<u8> {
    let _ = std::fs::remove_file(path);
    let mut lb = LogBuilder::new(LogOptions::default(), path).expect("LogBuilder::new");
    for b in batches {
        lb.append(&batch_of(b)).expect("append");
    }
    lb.fsync().expect("fsync");
    drop(lb.seal().expect("seal"));
    std::fs::read(path).expect("read log")
}

fn e(key: &str, ts: u64, value: Option<Vec<u8>>) -> Entry {
    Entry {
        key: key.as_bytes().to_vec(),
        ts,
        value,
    }
}

fn small_batches() -> Vec<Vec<Entry>> {
    vec![
        vec![e("alpha", 5, Some(b"one".to_vec()))],
        vec![e("alpha", 6, None)],
        vec![
            e("beta/1", 7, Some(filler("b1-", 60))),
            e("beta/2", 7, Some(filler("b2-", 1400))),
            e("beta/3", 7, None),
            e("alpha", 8, Some(b"x".to_vec())),
        ],
        vec![e("gamma", 9, Some(vec![]))],
    ]
}

/// One batch of roughly `bytes` payload bytes made of 32 KiB values plus one tuned value.
fn big_batch(bytes: usize, tune: usize) -> Vec<Entry> {
    let mut v = vec![];
    let mut left = bytes;
    let mut i = 0;
    while left > 40000 {
        v.push(e(
            &format!("big/{i:03}"),
            100 + i as u64,
            Some(filler(&format!("B{i}-"), 32768)),
        ));
        left -= 32768 + 24;
        i += 1;
    }
    v.push(e("big/tune", 99, Some(filler("T-", left.saturating_sub(24) + tune))));
    v
}

fn build_log_fixture(name: &str) -> Fixture {
    let scratch = Scratch::new("fix");
    let path = scratch.sub("t.log");
    let batches: Vec<Vec<Entry>> = match name {
        "log-whole" => small_batches(),
        "log-split" => {
            // first frame ends ~300 bytes before the boundary; the second straddles it
            let mut b = vec![big_batch(LOG_BLOCK - 320, 0)];
            b.push(vec![
                e("split/1", 200, Some(filler("s1-", 400))),
                e("split/2", 200, None),
                e("split/3", 200, Some(filler("s3-", 200))),
            ]);
            b.push(vec![e("tail", 201, Some(b"t".to_vec()))]);
            b
        }
        "log-padded" => {
            // first frame ends 10 bytes before the boundary: the next append only pads
            let mut tune = 0usize;
            loop {
                let b = vec![big_batch(LOG_BLOCK - 30, tune)];
                let bytes = build_log_file(&b, &path);
                let want = LOG_BLOCK - 10;
                if bytes.len() == want {
                    break;
                }
                assert!(tune < 64, "cannot tune the padded log");
                if bytes.len() < want {
                    tune += want - bytes.len();
                } else {
                    panic!("padded log overshoots");
                }
            }
            vec![
                big_batch(LOG_BLOCK - 30, tune),
                vec![
                    e("pad/1", 300, Some(b"after the padding".to_vec())),
                    e("pad/2", 300, None),
                ],
            ]
        }
        _ => panic!("no log fixture {name}"),
    };
    let bytes = build_log_file(&batches, &path);
    let (regions, frames) = log_layout(&bytes);
    let discs: Vec<u64> = frames.iter().map(|f| f.discriminant).collect();
    match name {
        "log-whole" => assert!(discs == vec![1, 1, 1, 1], "{discs:?}"),
        "log-split" => {
            assert!(discs == vec![1, 2, 3, 1], "{discs:?}");
            assert!(regions.iter().any(|r| r.name == "padding"));
        }
        "log-padded" => {
            assert!(discs == vec![1, 1], "{discs:?}");
            assert!(regions.iter().any(|r| r.name == "padding"));
            assert!(frames[1].header.start == LOG_BLOCK);
        }
        _ => {}
    }
    let window = if bytes.len() > 65536 {
        let mut w: Vec<Range<usize>> = vec![];
        for f in frames.iter() {
            w.push(f.header.start.saturating_sub(16)..(f.header.end + 16).min(bytes.len()));
        }
        for r in regions.iter().filter(|r| r.name == "padding") {
            w.push(r.range.clone());
        }
        w.push(LOG_BLOCK - 64..(LOG_BLOCK + 64).min(bytes.len()));
        w.push(bytes.len() - 32..bytes.len());
        Some(w)
    } else {
        None
    };
    let last = frames.last().unwrap();
    let last_record = bytes[last.header.start..last.payload.end].to_vec();
    Fixture {
        name: name.to_string(),
        kind: Kind::Log,
        regions,
        describe: json!({
            "kind": "log", "bytes": bytes.len(), "frames": discs,
            "window": window.as_ref().map(|w| w.iter().map(|r| json!([r.start, r.end])).collect::<Vec<_>>()),
        }),
        window,
        last_record,
        // a complete frame header announcing an empty payload (size 0, whole, crc32c of "" = 0)
        separator: vec![9, 80, 0, 88, 1, 101, 0, 0, 0, 0],
        truth: Truth::Log { batches },
        files: vec![("t.log".to_string(), bytes)],
        target: 0,
    }
}

//////////////////////////////////////////// manifests /////////////////////////////////////////////

pub fn mani_options(ratio: u64) -> ManifestOptions {
    let r = ratio.to_string();
    let (o, free) = ManifestOptions::from_arguments_relaxed("verif", &["--log-rollover-ratio", &r]);
    assert!(free.is_empty());
    assert!(format!("{o:?}").contains(&format!("log_rollover_ratio: {r}")));
    o
}

fn edit_of(m: &EditM) -> Edit {
    let mut ed = Edit::default();
    for s in m.rm.iter() {
        ed.rm(s).expect("rm");
    }
    for s in m.add.iter() {
        ed.add(s).expect("add");
    }
    for (c, s) in m.info.iter() {
        ed.info(*c, s).expect("info");
    }
    ed
}

fn mani_edits() -> Vec<EditM> {
    let mut v = mani_edits_raw();
    // the real Edit keeps sorted sets
    for e in v.iter_mut() {
        e.rm.sort();
        e.add.sort();
        e.info.sort();
    }
    v
}

fn mani_edits_raw() -> Vec<EditM> {
    let s = |x: &str| x.to_string();
    vec![
        EditM {
            rm: vec![],
            add: vec![s("sst/0001"), s("sst/0002 with space")],
            info: vec![('I', s("abc")), ('D', s("def"))],
        },
        EditM {
            rm: vec![s("sst/0001")],
            add: vec![s("sst/0003")],
            info: vec![('I', s("xyz"))],
        },
        EditM {
            rm: vec![s("sst/0002 with space")],
            add: vec![s("-------"), s("+plus")],
            info: vec![('O', s(""))],
        },
        EditM {
            rm: vec![s("sst/0003"), s("-------")],
            add: vec![s("sst/0004")],
            info: vec![],
        },
        EditM {
            rm: vec![s("+plus")],
            add: vec![s("sst/0005")],
            info: vec![('D', s("d2"))],
        },
    ]
}

pub fn mani_regions(b: &[u8]) -> Vec<Region> {
    let mut v = vec![];
    let mut pos = 0;
    let mut line_no = 0;
    while pos < b.len() {
        let end = b[pos..]
            .iter()
            .position(|x| *x == b'\n')
            .map(|i| pos + i + 1)
            .unwrap_or(b.len());
        let line = &b[pos..end];
        if line.starts_with(b"--------") && line.len() <= 9 {
            v.push(Region {
                name: "separator",
                range: pos..end,
                checksummed: false,
                note: format!("separator line {line_no}"),
            });
        } else {
            v.push(Region {
                name: "crc-digits",
                range: pos..pos + 8,
                checksummed: false,
                note: format!("crc digits of line {line_no}"),
            });
            v.push(Region {
                name: "payload",
                range: pos + 8..end,
                checksummed: true,
                note: format!("payload of line {line_no}"),
            });
        }
        pos = end;
        line_no += 1;
    }
    v
}

fn read_tree(root: &Path) -> Vec<(String, Vec<u8>)> {
    fn walk(root: &Path, dir: &Path, out: &mut Vec<(String, Vec<u8>)>) {
        let mut names: Vec<_> = std::fs::read_dir(dir)
            .expect("read_dir")
            .map(|e| e.unwrap().path())
            .collect();
        names.sort();
        for p in names {
            if p.is_dir() {
                walk(root, &p, out);
            } else {
                let rel = p.strip_prefix(root).unwrap().to_string_lossy().to_string();
                out.push((rel, std::fs::read(&p).expect("read")));
            }
        }
    }
    let mut out = vec![];
    walk(root, root, &mut out);
    out
}

fn build_mani_fixture(name: &str) -> Fixture {
    let scratch = Scratch::new("fix");
    let dir = scratch.sub("mani");
    let all = mani_edits();
    let (edits, target_name): (Vec<EditM>, &str) = match name {
        "mani-e1" | "mani-e2" | "mani-e3" => {
            let n = name[6..].parse::<usize>().unwrap();
            let mut m = Manifest::open(mani_options(1000), &dir).expect("open");
            for ed in all[..n].iter() {
                m.apply(edit_of(ed)).expect("apply");
            }
            drop(m);
            assert!(!dir.join("MANIFEST.1").exists());
            (all[..n].to_vec(), "MANIFEST")
        }
        "mani-roll-new" | "mani-roll-old" => {
            // three edits, an explicit rollover (MANIFEST.1 keeps them, MANIFEST starts with the
            // roll-up), one more edit
            let mut m = Manifest::open(mani_options(1000), &dir).expect("open");
            for ed in all[..3].iter() {
                m.apply(edit_of(ed)).expect("apply");
            }
            m.rollover().expect("rollover");
            m.apply(edit_of(&all[3])).expect("apply");
            drop(m);
            assert!(dir.join("MANIFEST.1").exists(), "no rollover happened");
            assert!(!dir.join("MANIFEST.2").exists(), "two rollovers");
            (
                all[..4].to_vec(),
                if name == "mani-roll-new" {
                    "MANIFEST"
                } else {
                    "MANIFEST.1"
                },
            )
        }
        _ => panic!("no manifest fixture {name}"),
    };
    let files = read_tree(&dir);
    let target = files
        .iter()
        .position(|(n, _)| n == target_name)
        .expect("target file");
    let bytes = files[target].1.clone();
    let regions = mani_regions(&bytes);
    // last complete edit: from after the previous separator line to the end
    let seps: Vec<&Region> = regions.iter().filter(|r| r.name == "separator").collect();
    let last_start = if seps.len() >= 2 {
        seps[seps.len() - 2].range.end
    } else {
        0
    };
    Fixture {
        name: name.to_string(),
        kind: Kind::Mani,
        describe: json!({
            "kind": "manifest", "file": target_name, "bytes": bytes.len(),
            "edits_applied": edits.len(),
            "files": files.iter().map(|(n, b)| json!([n, b.len()])).collect::<Vec<_>>(),
            "lines": regions.iter().filter(|r| r.name != "crc-digits").count(),
        }),
        regions,
        window: None,
        last_record: bytes[last_start..].to_vec(),
        separator: b"--------\n".to_vec(),
        truth: Truth::Mani { edits },
        files,
        target,
    }
}

/////////////////////////////////////////////// store //////////////////////////////////////////////

pub fn store_cfg() -> seqmc::store::Cfg {
    seqmc::store::Cfg::new(
        "damage-store",
        &[
            ("memtable-size-bytes", "0"),
            ("l0-mandatory-compaction-threshold-files", "4"),
            ("l0-write-stall-threshold-files", "12"),
            ("sst-cache-bytes", "0"),
        ],
    )
}

fn build_store_fixture(name: &str) -> Fixture {
    use seqmc::store::{Op, StepResult, Store};
    let which: usize = name["store-sst".len()..].parse().unwrap();
    let scratch = Scratch::new("fix");
    let dir = scratch.sub("db");
    let cfg = store_cfg();
    {
        let mut st = Store::open(&cfg, &dir).expect("store open");
        for op in [
            Op::Put(0),
            Op::Put(1),
            Op::PutBig(2),
            Op::Flush,
            Op::Del(0),
            Op::Put(2),
            Op::Put(1),
            Op::Flush,
        ] {
            match st.apply(&op) {
                StepResult::Ok => {}
                StepResult::Err(e) => panic!("store fixture: {} failed: {e}", op.name()),
                _ => panic!("store fixture: {} did nothing", op.name()),
            }
        }
    }
    let files = read_tree(&dir);
    let ssts: Vec<usize> = files
        .iter()
        .enumerate()
        .filter(|(_, (n, _))| n.starts_with("sst/") && n.ends_with(".sst"))
        .map(|(i, _)| i)
        .collect();
    assert!(ssts.len() == 2, "store fixture has {} ssts", ssts.len());
    let target = ssts[which];
    let bytes = files[target].1.clone();
    let layout = sst_layout(&bytes);
    Fixture {
        name: name.to_string(),
        kind: Kind::Store,
        regions: sst_regions(&layout),
        window: None,
        last_record: vec![],
        separator: vec![],
        truth: Truth::Store,
        describe: json!({
            "kind": "store", "damaged_file": files[target].0, "bytes": bytes.len(),
            "files": files.iter().map(|(n, b)| json!([n, b.len()])).collect::<Vec<_>>(),
        }),
        files,
        target,
    }
}

pub fn fixture_names(thorough: bool) -> Vec<String> {
    let mut v: Vec<String> = vec![];
    for row in SST_ROWS {
        for blocks in 1..=3 {
            // quick: the three-block file only under the default options row
            if thorough || blocks < 3 || row == "r0" {
                v.push(format!("sst-b{blocks}-{row}"));
            }
        }
    }
    for n in ["log-whole", "log-split", "log-padded"] {
        v.push(n.to_string());
    }
    for n in ["mani-e1", "mani-e2", "mani-e3", "mani-roll-new", "mani-roll-old"] {
        v.push(n.to_string());
    }
    if thorough {
        v.push("store-sst0".into());
        v.push("store-sst1".into());
    }
    v
}

pub fn build_fixture(name: &str) -> Fixture {
    if let Some(rest) = name.strip_prefix("sst-b") {
        let (b, row) = rest.split_once('-').expect("sst-b<N>-<row>");
        build_sst_fixture(name, row, b.parse().unwrap())
    } else if name.starts_with("log-") {
        build_log_fixture(name)
    } else if name.starts_with("mani-") {
        build_mani_fixture(name)
    } else if name.starts_with("store-sst") {
        build_store_fixture(name)
    } else {
        panic!("no fixture {name}")
    }
}
