//! The damage alphabet and its exhaustive enumeration over a pristine byte string.

use std::ops::Range;

use vcore::{Value, json};

#[derive(Clone, Copy, Debug, PartialEq, Eq, Hash)]
pub enum ByteKind {
    BitFlip(u8),
    Zero,
    Ff,
    Inc,
    /// any other value: used in the small regions no checksum covers (frame headers, final
    /// block, crc digits), where every one of the 255 other byte values is tried
    Any,
}

impl ByteKind {
    pub fn class(&self) -> &'static str {
        match self {
            ByteKind::BitFlip(_) => "bitflip",
            _ => "overwrite",
        }
    }

    pub fn name(&self) -> String {
        match self {
            ByteKind::BitFlip(b) => format!("bitflip{b}"),
            ByteKind::Zero => "overwrite-00".into(),
            ByteKind::Ff => "overwrite-ff".into(),
            ByteKind::Inc => "overwrite-inc".into(),
            ByteKind::Any => "overwrite-any".into(),
        }
    }
}

#[derive(Clone, Copy, Debug, PartialEq, Eq, Hash)]
pub enum Suffix {
    Zero1,
    Zero8,
    Ff8,
    Last8,
    LastRecord,
    Separator,
    /// a line of ASCII digits with one two-byte UTF-8 character that starts at byte 7 / byte 8
    /// (text formats slice lines at fixed byte offsets)
    Utf8At7,
    Utf8At8,
}

pub const SUFFIXES: [Suffix; 8] = [
    Suffix::Zero1,
    Suffix::Zero8,
    Suffix::Ff8,
    Suffix::Last8,
    Suffix::LastRecord,
    Suffix::Separator,
    Suffix::Utf8At7,
    Suffix::Utf8At8,
];

impl Suffix {
    pub fn name(&self) -> &'static str {
        match self {
            Suffix::Zero1 => "zero1",
            Suffix::Zero8 => "zero8",
            Suffix::Ff8 => "ff8",
            Suffix::Last8 => "last8",
            Suffix::LastRecord => "last-record",
            Suffix::Separator => "separator",
            Suffix::Utf8At7 => "utf8-at-7",
            Suffix::Utf8At8 => "utf8-at-8",
        }
    }

    pub fn parse(s: &str) -> Suffix {
        *SUFFIXES
            .iter()
            .find(|x| x.name() == s)
            .unwrap_or_else(|| panic!("bad suffix {s}"))
    }
}

#[derive(Clone, Debug, PartialEq, Eq, Hash)]
pub enum Damage {
    /// the byte at `off` becomes `val`
    Byte { off: usize, val: u8, kind: ByteKind },
    /// keep the first `len` bytes
    Truncate { len: usize },
    Append { suffix: Suffix },
    /// two single-byte damages at distinct offsets
    Pair { a: (usize, u8), b: (usize, u8) },
}

impl Damage {
    /// The coarse class used in signatures.
    pub fn class(&self) -> String {
        match self {
            Damage::Byte { kind, .. } => kind.class().to_string(),
            Damage::Truncate { .. } => "truncate".into(),
            Damage::Append { suffix } => format!("append-{}", suffix.name()),
            Damage::Pair { .. } => "pair".into(),
        }
    }

    pub fn is_truncate(&self) -> bool {
        matches!(self, Damage::Truncate { .. })
    }

    pub fn is_append(&self) -> bool {
        matches!(self, Damage::Append { .. })
    }

    pub fn to_json(&self) -> Value {
        match self {
            Damage::Byte { off, val, kind } => {
                json!({"type": "byte", "off": off, "val": val, "kind": kind.name()})
            }
            Damage::Truncate { len } => json!({"type": "truncate", "len": len}),
            Damage::Append { suffix } => json!({"type": "append", "suffix": suffix.name()}),
            Damage::Pair { a, b } => {
                json!({"type": "pair", "a": [a.0, a.1], "b": [b.0, b.1]})
            }
        }
    }

    pub fn from_json(v: &Value) -> Damage {
        match v["type"].as_str().unwrap() {
            "byte" => {
                let k = v["kind"].as_str().unwrap_or("overwrite-00");
                let kind = if let Some(b) = k.strip_prefix("bitflip") {
                    ByteKind::BitFlip(b.parse().unwrap_or(0))
                } else if k == "overwrite-ff" {
                    ByteKind::Ff
                } else if k == "overwrite-inc" {
                    ByteKind::Inc
                } else if k == "overwrite-any" {
                    ByteKind::Any
                } else {
                    ByteKind::Zero
                };
                Damage::Byte {
                    off: v["off"].as_u64().unwrap() as usize,
                    val: v["val"].as_u64().unwrap() as u8,
                    kind,
                }
            }
            "truncate" => Damage::Truncate {
                len: v["len"].as_u64().unwrap() as usize,
            },
            "append" => Damage::Append {
                suffix: Suffix::parse(v["suffix"].as_str().unwrap()),
            },
            "pair" => Damage::Pair {
                a: (
                    v["a"][0].as_u64().unwrap() as usize,
                    v["a"][1].as_u64().unwrap() as u8,
                ),
                b: (
                    v["b"][0].as_u64().unwrap() as usize,
                    v["b"][1].as_u64().unwrap() as u8,
                ),
            },
            t => panic!("bad damage type {t}"),
        }
    }

    /// The offsets that decide the region(s) the damage falls in.
    pub fn offsets(&self, pristine_len: usize) -> Vec<usize> {
        match self {
            Damage::Byte { off, .. } => vec![*off],
            Damage::Truncate { len } => vec![*len],
            Damage::Append { .. } => vec![pristine_len],
            Damage::Pair { a, b } => vec![a.0, b.0],
        }
    }
}

/// The distinct replacement values of one byte: 8 bit flips, then 0x00, 0xFF, b+1 where those are
/// not already a bit flip (b^0x80 always is).  Returns (values, number of no-op/duplicate
/// overwrites dropped).
pub fn byte_values(b: u8) -> (Vec<(u8, ByteKind)>, u64) {
    let mut out: Vec<(u8, ByteKind)> = vec![];
    for bit in 0..8u8 {
        out.push((b ^ (1 << bit), ByteKind::BitFlip(bit)));
    }
    let mut dropped = 1; // b ^ 0x80
    for (v, k) in [
        (0x00u8, ByteKind::Zero),
        (0xffu8, ByteKind::Ff),
        (b.wrapping_add(1), ByteKind::Inc),
    ] {
        if v == b || out.iter().any(|(x, _)| *x == v) {
            dropped += 1;
        } else {
            out.push((v, k));
        }
    }
    (out, dropped)
}

/// What the enumeration of one file covers.
pub struct Plan<'a> {
    pub pristine: &'a [u8],
    /// offsets at which byte damage and truncation is applied (None: everywhere)
    pub window: Option<&'a [Range<usize>]>,
    /// regions no checksum covers, for the pair tier
    pub unchecksummed: &'a [Range<usize>],
    pub pairs: bool,
    /// only bit flips inside the unchecksummed regions (the store-level pass)
    pub only_unchecksummed_bitflips: bool,
}

fn in_ranges(rs: &[Range<usize>], off: usize) -> bool {
    rs.iter().any(|r| r.contains(&off))
}

/// Enumerate small-to-large: byte damages by offset, truncations by length, suffixes, pairs.
/// Returns the cases and the number of duplicate/no-op overwrites that were dropped.
pub fn enumerate(plan: &Plan) -> (Vec<Damage>, u64) {
    let p = plan.pristine;
    let mut out = vec![];
    let mut dropped = 0u64;
    if plan.only_unchecksummed_bitflips {
        for off in 0..p.len() {
            if !in_ranges(plan.unchecksummed, off) {
                continue;
            }
            for bit in 0..8u8 {
                out.push(Damage::Byte {
                    off,
                    val: p[off] ^ (1 << bit),
                    kind: ByteKind::BitFlip(bit),
                });
            }
        }
        return (out, 0);
    }
    let inside = |off: usize| match plan.window {
        None => true,
        Some(w) => in_ranges(w, off),
    };
    for off in 0..p.len() {
        if !inside(off) {
            continue;
        }
        let (vals, d) = byte_values(p[off]);
        dropped += d;
        let tried: Vec<u8> = vals.iter().map(|(v, _)| *v).collect();
        for (val, kind) in vals {
            out.push(Damage::Byte { off, val, kind });
        }
        // where no checksum protects the byte, try every other value too
        if in_ranges(plan.unchecksummed, off) {
            for val in 0..=255u8 {
                if val != p[off] && !tried.contains(&val) {
                    out.push(Damage::Byte { off, val, kind: ByteKind::Any });
                }
            }
        }
    }
    for len in 0..p.len() {
        if len == 0 || inside(len) {
            out.push(Damage::Truncate { len });
        }
    }
    for s in SUFFIXES {
        out.push(Damage::Append { suffix: s });
    }
    // two adjacent bytes become one valid two-byte UTF-8 character (0xC3 0xA9), at every offset:
    // a single high byte is invalid UTF-8 and is refused wholesale by text readers, a well-formed
    // multi-byte character is not, and it shifts every later char boundary
    for off in 0..p.len().saturating_sub(1) {
        if inside(off) && inside(off + 1) && (p[off], p[off + 1]) != (0xc3, 0xa9) {
            out.push(Damage::Pair {
                a: (off, 0xc3),
                b: (off + 1, 0xa9),
            });
        }
    }
    if plan.pairs {
        let offs: Vec<usize> = (0..p.len())
            .filter(|o| in_ranges(plan.unchecksummed, *o))
            .collect();
        for (i, &oa) in offs.iter().enumerate() {
            let (va, _) = byte_values(p[oa]);
            for &ob in offs[i + 1..].iter() {
                let (vb, _) = byte_values(p[ob]);
                for (a, _) in va.iter() {
                    for (b, _) in vb.iter() {
                        out.push(Damage::Pair {
                            a: (oa, *a),
                            b: (ob, *b),
                        });
                    }
                }
            }
        }
    }
    (out, dropped)
}

/// The damaged bytes.  `last_record` and `separator` are per file kind.
pub fn apply(pristine: &[u8], d: &Damage, last_record: &[u8], separator: &[u8]) -> Vec<u8> {
    let mut v = pristine.to_vec();
    match d {
        Damage::Byte { off, val, .. } => v[*off] = *val,
        Damage::Truncate { len } => v.truncate(*len),
        Damage::Append { suffix } => match suffix {
            Suffix::Zero1 => v.push(0),
            Suffix::Zero8 => v.extend_from_slice(&[0; 8]),
            Suffix::Ff8 => v.extend_from_slice(&[0xff; 8]),
            Suffix::Last8 => {
                let n = pristine.len().min(8);
                v.extend_from_slice(&pristine[pristine.len() - n..]);
            }
            Suffix::LastRecord => v.extend_from_slice(last_record),
            Suffix::Separator => v.extend_from_slice(separator),
            Suffix::Utf8At7 => v.extend_from_slice("0000000\u{e9}000\n".as_bytes()),
            Suffix::Utf8At8 => v.extend_from_slice("00000000\u{e9}00\n".as_bytes()),
        },
        Damage::Pair { a, b } => {
            v[a.0] = a.1;
            v[b.0] = b.1;
        }
    }
    v
}
