//! The read programs (run on pristine and on damaged files alike) and the comparison of a damaged
//! observation with the pristine one.

use std::ops::Bound;
use std::path::Path;

use mani::{Edit, Manifest, ManifestIterator};
use sst::file_manager::FileHandle;
use sst::log::{log_to_builder, log_to_setsum};
use sst::{Cursor, LogIterator, LogOptions, SError, Sst, SstBuilder, SstOptions};

use crate::alloc;
use crate::fixtures::{EditM, Entry, entry_order};

#[derive(Clone, Debug, PartialEq)]
pub enum Step<T> {
    Ok(T),
    /// the error code (or a short class) of an error return
    Err(String),
    Panic(String),
    Skipped,
}

impl<T> Step<T> {
    pub fn class(&self) -> String {
        match self {
            Step::Ok(_) => "ok".into(),
            Step::Err(c) => format!("err:{c}"),
            Step::Panic(m) => format!("panic:{}", sanitize(m)),
            Step::Skipped => "skipped".into(),
        }
    }

    pub fn is_ok(&self) -> bool {
        matches!(self, Step::Ok(_))
    }
}

/// Keep the structure of a panic message: digits become '#', cut at 60 characters.
pub fn sanitize(m: &str) -> String {
    let mut s = String::new();
    let mut last = false;
    for c in m.chars() {
        if c.is_ascii_digit() {
            if !last {
                s.push('#');
            }
            last = true;
        } else {
            last = false;
            s.push(if c == '\n' { ' ' } else { c });
        }
    }
    s.chars().take(60).collect()
}

pub fn sst_code(e: &SError) -> String {
    sst::error_code(e).unwrap_or("uncoded").to_string()
}

/// Per-case bookkeeping: subject calls made and allocation requests beyond the limit.
pub struct Ctx {
    pub limit: usize,
    pub calls: u64,
    pub big_allocs: Vec<(String, usize)>,
    /// largest single allocation request made inside a subject step
    pub max_alloc: usize,
    /// steps that returned an error / steps run
    pub errs: u64,
    pub steps: u64,
}

impl Ctx {
    pub fn new(limit: usize) -> Self {
        Ctx {
            limit,
            calls: 0,
            big_allocs: vec![],
            max_alloc: 0,
            errs: 0,
            steps: 0,
        }
    }

    /// Run one subject step under catch_unwind with the allocation high-water mark reset.
    pub fn step<T>(
        &mut self,
        name: &str,
        code: impl Fn(&SError) -> String,
        f: impl FnOnce(&mut u64) -> Result<T, SError>,
    ) -> Step<T> {
        alloc::reset_thread_max();
        let mut calls = 0u64;
        let r = vcore::catch(|| f(&mut calls));
        self.calls += calls.max(1);
        let m = alloc::thread_max();
        self.max_alloc = self.max_alloc.max(m);
        self.steps += 1;
        if !matches!(r, Ok(Ok(_))) {
            self.errs += 1;
        }
        if m > self.limit {
            self.big_allocs.push((name.to_string(), m));
        }
        match r {
            Ok(Ok(t)) => Step::Ok(t),
            Ok(Err(e)) => Step::Err(code(&e)),
            Err(p) => Step::Panic(p),
        }
    }
}

#[derive(Clone, Debug)]
pub struct Finding {
    /// "panic", "silent" or "alloc"
    pub class: &'static str,
    /// structural tail of the signature: which read step diverged and how
    pub what: String,
    pub detail: String,
}

fn show_entry(e: &Entry) -> String {
    let v = match &e.value {
        None => "TOMBSTONE".to_string(),
        Some(v) if v.len() > 24 => format!("{}..({} bytes)", vcore::esc(&v[..24]), v.len()),
        Some(v) => vcore::esc(v),
    };
    format!("({} @{} = {})", vcore::esc(&e.key), e.ts, v)
}

/// Compare a walk (entries produced, then how it ended) with the expected full sequence.
fn compare_walk(
    step: &str,
    got: &(Vec<Entry>, Step<()>),
    want: &[Entry],
    out: &mut Vec<Finding>,
) {
    let (es, end) = got;
    let first_diff = es.iter().zip(want.iter()).position(|(a, b)| a != b);
    let describe = |i: usize| {
        format!(
            "entry {i}: expected {}, observed {}",
            want.get(i).map(show_entry).unwrap_or("END".into()),
            es.get(i).map(show_entry).unwrap_or("END".into())
        )
    };
    match end {
        Step::Panic(m) => out.push(Finding {
            class: "panic",
            what: format!("{step}-panic({})", sanitize(m)),
            detail: format!("{step} panicked after {} entries: {m}", es.len()),
        }),
        Step::Ok(()) => {
            if let Some(i) = first_diff {
                out.push(Finding {
                    class: "silent",
                    what: format!("{step}-differs(changed-entry)"),
                    detail: describe(i),
                });
            } else if es.len() < want.len() {
                out.push(Finding {
                    class: "silent",
                    what: format!("{step}-differs(fewer-entries)"),
                    detail: format!(
                        "ended cleanly after {} of {} entries; {}",
                        es.len(),
                        want.len(),
                        describe(es.len())
                    ),
                });
            } else if es.len() > want.len() {
                out.push(Finding {
                    class: "silent",
                    what: format!("{step}-differs(more-entries)"),
                    detail: describe(want.len()),
                });
            }
        }
        Step::Err(_) => {
            if let Some(i) = first_diff {
                out.push(Finding {
                    class: "silent",
                    what: format!("{step}-partial-differs(changed-entry-before-error)"),
                    detail: describe(i),
                });
            } else if es.len() > want.len() {
                out.push(Finding {
                    class: "silent",
                    what: format!("{step}-partial-differs(more-entries-before-error)"),
                    detail: describe(want.len()),
                });
            }
        }
        Step::Skipped => {}
    }
}

fn walk(
    c: &mut dyn Cursor,
    forward: bool,
    cap: usize,
    calls: &mut u64,
    out: &mut Vec<Entry>,
) -> Result<(), SError> {
    *calls += 1;
    if forward {
        c.seek_to_first()?;
    } else {
        c.seek_to_last()?;
    }
    loop {
        *calls += 1;
        if forward {
            c.next()?;
        } else {
            c.prev()?;
        }
        match c.key_value() {
            None => return Ok(()),
            Some(kv) => out.push(Entry {
                key: kv.key.to_vec(),
                ts: kv.timestamp,
                value: kv.value.map(|v| v.to_vec()),
            }),
        }
        if out.len() > cap {
            // more than the pristine file ever held: the comparison flags it
            return Ok(());
        }
    }
}

/// Run a walk so that the entries produced before an error or panic are kept.
fn walk_step<C: Cursor>(
    ctx: &mut Ctx,
    name: &str,
    code: impl Fn(&SError) -> String,
    cap: usize,
    forward: bool,
    mk: impl FnOnce() -> Result<C, SError>,
) -> (Vec<Entry>, Step<()>) {
    let mut es = vec![];
    let end = {
        let es_ref = &mut es;
        ctx.step(name, code, move |calls| {
            let mut c = mk()?;
            walk(&mut c, forward, cap, calls, es_ref)
        })
    };
    (es, end)
}

/////////////////////////////////////////////// SST ////////////////////////////////////////////////

#[derive(Clone, Debug, PartialEq)]
pub struct Meta {
    pub setsum: [u8; 32],
    pub first_key: Vec<u8>,
    pub last_key: Vec<u8>,
    pub smallest_timestamp: u64,
    pub biggest_timestamp: u64,
    pub file_size: u64,
}

#[derive(Clone, Debug)]
pub struct SstObs {
    pub open: Step<()>,
    pub metadata: Step<Meta>,
    pub forward: (Vec<Entry>, Step<()>),
    pub backward: (Vec<Entry>, Step<()>),
    pub loads: Vec<Step<(Option<Vec<u8>>, bool)>>,
}

/// (key, timestamp) pairs for point reads: every key at u64::MAX and one below each of its
/// versions (the multi-version key also at each version); keys that are absent (before, between, extending, after).
pub fn load_probes(entries: &[Entry]) -> Vec<(Vec<u8>, u64)> {
    let mut v: Vec<(Vec<u8>, u64)> = vec![];
    for e in entries {
        v.push((e.key.clone(), u64::MAX));
        v.push((e.key.clone(), e.ts.saturating_sub(1)));
        if e.key.ends_with(b"0002") {
            v.push((e.key.clone(), e.ts));
        }
    }
    for k in [
        &b""[..],
        b"a",
        b"user/profile/",
        b"user/profile/0001x",
        b"user/profile/0002/",
        b"zzz",
    ] {
        v.push((k.to_vec(), u64::MAX));
        v.push((k.to_vec(), 0));
    }
    v.sort();
    v.dedup();
    v
}

pub fn observe_sst(ctx: &mut Ctx, path: &Path, probes: &[(Vec<u8>, u64)], cap: usize) -> SstObs {
    let open = ctx.step("open", sst_code, |_| {
        Sst::<FileHandle>::new(SstOptions::default(), path)
    });
    let sst = match open {
        Step::Ok(s) => s,
        Step::Err(c) => {
            return SstObs {
                open: Step::Err(c),
                metadata: Step::Skipped,
                forward: (vec![], Step::Skipped),
                backward: (vec![], Step::Skipped),
                loads: vec![],
            };
        }
        Step::Panic(m) => {
            return SstObs {
                open: Step::Panic(m),
                metadata: Step::Skipped,
                forward: (vec![], Step::Skipped),
                backward: (vec![], Step::Skipped),
                loads: vec![],
            };
        }
        Step::Skipped => unreachable!(),
    };
    let metadata = ctx.step("metadata", sst_code, |_| {
        let m = sst.metadata()?;
        Ok(Meta {
            setsum: m.setsum,
            first_key: m.first_key,
            last_key: m.last_key,
            smallest_timestamp: m.smallest_timestamp,
            biggest_timestamp: m.biggest_timestamp,
            file_size: m.file_size,
        })
    });
    let forward = walk_step(ctx, "forward", sst_code, cap, true, || Ok(sst.cursor()));
    let backward = walk_step(ctx, "backward", sst_code, cap, false, || Ok(sst.cursor()));
    let mut loads = vec![];
    for (k, ts) in probes {
        loads.push(ctx.step("load", sst_code, |_| {
            let mut tomb = false;
            let v = sst.load(k, *ts, &mut tomb)?;
            Ok((v, tomb))
        }));
    }
    SstObs {
        open: Step::Ok(()),
        metadata,
        forward,
        backward,
        loads,
    }
}

fn compare_load(
    got: &Step<(Option<Vec<u8>>, bool)>,
    want: &Step<(Option<Vec<u8>>, bool)>,
    what_key: &str,
    out: &mut Vec<Finding>,
) {
    match (got, want) {
        (Step::Panic(m), _) => out.push(Finding {
            class: "panic",
            what: format!("load-panic({})", sanitize(m)),
            detail: format!("load({what_key}) panicked: {m}"),
        }),
        (Step::Ok(g), Step::Ok(w)) if g != w => {
            let kind = match (w, g) {
                ((Some(_), _), (Some(_), _)) => "value",
                ((None, false), _) => "spurious",
                (_, (None, false)) => "missing",
                _ => "tombstone",
            };
            out.push(Finding {
                class: "silent",
                what: format!("load-differs({kind})"),
                detail: format!(
                    "load({what_key}): expected (value {:?}, tombstone {}), observed (value {:?}, tombstone {})",
                    w.0.as_ref().map(|v| vcore::esc(&v[..v.len().min(24)])),
                    w.1,
                    g.0.as_ref().map(|v| vcore::esc(&v[..v.len().min(24)])),
                    g.1
                ),
            });
        }
        _ => {}
    }
}

fn show_meta(m: &Meta, fields: &[&str]) -> String {
    let mut v = vec![];
    for f in fields {
        v.push(match *f {
            "setsum" => format!("setsum {}", vcore::hex(&m.setsum)),
            "first_key" => format!("first_key {}", vcore::esc(&m.first_key)),
            "last_key" => format!("last_key {}", vcore::esc(&m.last_key)),
            "smallest_timestamp" => format!("smallest_timestamp {}", m.smallest_timestamp),
            "biggest_timestamp" => format!("biggest_timestamp {}", m.biggest_timestamp),
            _ => format!("file_size {}", m.file_size),
        });
    }
    v.join(", ")
}

pub fn compare_sst(
    got: &SstObs,
    want: &SstObs,
    probes: &[(Vec<u8>, u64)],
    length_changed: bool,
) -> Vec<Finding> {
    let mut out = vec![];
    let Step::Ok(wm) = &want.metadata else {
        panic!("pristine metadata is not Ok")
    };
    if let Step::Panic(m) = &got.open {
        out.push(Finding {
            class: "panic",
            what: format!("open-panic({})", sanitize(m)),
            detail: format!("Sst::new panicked: {m}"),
        });
        return out;
    }
    match &got.metadata {
        Step::Panic(m) => out.push(Finding {
            class: "panic",
            what: format!("metadata-panic({})", sanitize(m)),
            detail: format!("Sst::metadata panicked: {m}"),
        }),
        Step::Ok(gm) => {
            let mut diff = vec![];
            if gm.setsum != wm.setsum {
                diff.push("setsum");
            }
            if gm.first_key != wm.first_key {
                diff.push("first_key");
            }
            if gm.last_key != wm.last_key {
                diff.push("last_key");
            }
            if gm.smallest_timestamp != wm.smallest_timestamp {
                diff.push("smallest_timestamp");
            }
            if gm.biggest_timestamp != wm.biggest_timestamp {
                diff.push("biggest_timestamp");
            }
            // the size of a file whose length changed legitimately differs
            if gm.file_size != wm.file_size && !length_changed {
                diff.push("file_size");
            }
            if !diff.is_empty() {
                out.push(Finding {
                    class: "silent",
                    what: format!("metadata-differs({})", diff.join("+")),
                    detail: format!(
                        "expected {}, observed {}",
                        show_meta(wm, &diff),
                        show_meta(gm, &diff)
                    ),
                });
            }
        }
        _ => {}
    }
    compare_walk("forward", &got.forward, &want.forward.0, &mut out);
    let rev: Vec<Entry> = want.forward.0.iter().rev().cloned().collect();
    compare_walk("backward", &got.backward, &rev, &mut out);
    for (i, g) in got.loads.iter().enumerate() {
        let key = format!("{} @{}", vcore::esc(&probes[i].0), probes[i].1);
        compare_load(g, &want.loads[i], &key, &mut out);
    }
    out
}

pub fn sst_outcome(o: &SstObs) -> u64 {
    let loads: Vec<String> = {
        let mut v: Vec<String> = o.loads.iter().map(|l| l.class()).collect();
        v.sort();
        v.dedup();
        v
    };
    vcore::stable_hash(&(
        o.open.class(),
        o.metadata.class(),
        o.forward.1.class(),
        o.forward.0.len(),
        o.backward.1.class(),
        o.backward.0.len(),
        loads,
    ))
}

/////////////////////////////////////////////// log ////////////////////////////////////////////////

#[derive(Clone, Debug)]
pub struct LogObs {
    pub drain: (Vec<Entry>, Step<()>),
    /// entries and setsum of the SST that `log_to_builder` sealed (None: empty log)
    pub builder: Step<Option<(Vec<Entry>, [u8; 32])>>,
    pub setsum: Step<String>,
}

pub fn observe_log(ctx: &mut Ctx, path: &Path, out_sst: &Path, cap: usize) -> LogObs {
    let mut es = vec![];
    let drain_end = {
        let es_ref = &mut es;
        ctx.step("drain", sst_code, move |calls| {
            let mut it = LogIterator::new(LogOptions::default(), path)?;
            loop {
                *calls += 1;
                match it.next()? {
                    None => return Ok(()),
                    Some(kv) => es_ref.push(Entry {
                        key: kv.key.to_vec(),
                        ts: kv.timestamp,
                        value: kv.value.map(|v| v.to_vec()),
                    }),
                }
                if es_ref.len() > cap {
                    return Ok(());
                }
            }
        })
    };
    let _ = std::fs::remove_file(out_sst);
    let builder = ctx.step("log_to_builder", sst_code, |calls| {
        let b = SstBuilder::new(SstOptions::default(), out_sst)?;
        *calls += 1;
        match log_to_builder(LogOptions::default(), path, b)? {
            None => Ok(None),
            Some(sst) => {
                let mut es = vec![];
                let mut c = sst.cursor();
                walk(&mut c, true, usize::MAX, calls, &mut es)?;
                Ok(Some((es, sst.metadata()?.setsum)))
            }
        }
    });
    let _ = std::fs::remove_file(out_sst);
    let setsum = ctx.step("log_to_setsum", sst_code, |_| {
        Ok(log_to_setsum(LogOptions::default(), path)?.hexdigest())
    });
    LogObs {
        drain: (es, drain_end),
        builder,
        setsum,
    }
}

/// What every batch prefix of the pristine log holds.
pub struct LogRef {
    pub flat: Vec<Entry>,
    /// flat index after each batch (boundaries[0] = 0)
    pub boundaries: Vec<usize>,
    pub prefix_sorted: Vec<Vec<Entry>>,
    pub prefix_digest: Vec<[u8; 32]>,
    pub prefix_hex: Vec<String>,
}

impl LogRef {
    pub fn new(batches: &[Vec<Entry>]) -> Self {
        let mut flat = vec![];
        let mut boundaries = vec![0];
        let mut prefix_sorted = vec![vec![]];
        let mut acc = sst::Setsum::default();
        let mut prefix_digest = vec![acc.digest()];
        let mut prefix_hex = vec![acc.hexdigest()];
        for b in batches {
            for e in b {
                flat.push(e.clone());
                match &e.value {
                    Some(v) => acc.put(&e.key, e.ts, v),
                    None => acc.del(&e.key, e.ts),
                }
            }
            boundaries.push(flat.len());
            let mut s = flat.clone();
            s.sort_by(entry_order);
            prefix_sorted.push(s);
            prefix_digest.push(acc.digest());
            prefix_hex.push(acc.hexdigest());
        }
        LogRef {
            flat,
            boundaries,
            prefix_sorted,
            prefix_digest,
            prefix_hex,
        }
    }
}

/// `prefix_ok`: truncation and appended garbage may legitimately yield a prefix of the batches
/// followed by the end or an error (property C12's contract).
pub fn compare_log(got: &LogObs, want: &LogObs, r: &LogRef, prefix_ok: bool) -> Vec<Finding> {
    let mut out = vec![];
    if !prefix_ok {
        compare_walk("drain", &got.drain, &want.drain.0, &mut out);
    } else {
        let (es, end) = &got.drain;
        let is_prefix = es.len() <= r.flat.len() && es[..] == r.flat[..es.len()];
        match end {
            Step::Panic(_) => compare_walk("drain", &got.drain, &want.drain.0, &mut out),
            _ if !is_prefix => {
                let what = if es.len() > r.flat.len() && es[..r.flat.len()] == r.flat[..] {
                    "drain-differs(extra-entries-after-pristine)"
                } else {
                    "drain-differs(not-a-prefix)"
                };
                out.push(Finding {
                    class: "silent",
                    what: what.into(),
                    detail: format!(
                        "the log held {} entries; the reader returned {} (ending with {}); first extra/changed: {}",
                        r.flat.len(),
                        es.len(),
                        end.class(),
                        es.iter()
                            .zip(r.flat.iter().map(Some).chain(std::iter::repeat(None)))
                            .find(|(a, b)| Some(*a) != *b)
                            .map(|(a, _)| show_entry(a))
                            .unwrap_or_default()
                    ),
                });
            }
            Step::Ok(()) if !r.boundaries.contains(&es.len()) => out.push(Finding {
                class: "silent",
                what: "drain-differs(partial-batch-then-clean-end)".into(),
                detail: format!(
                    "the reader ended cleanly after {} entries, inside a batch (batch boundaries {:?})",
                    es.len(),
                    r.boundaries
                ),
            }),
            _ => {}
        }
    }
    match (&got.builder, &want.builder) {
        (Step::Panic(m), _) => out.push(Finding {
            class: "panic",
            what: format!("log_to_builder-panic({})", sanitize(m)),
            detail: format!("log_to_builder panicked: {m}"),
        }),
        (Step::Ok(g), Step::Ok(w)) => {
            let ok = if !prefix_ok {
                g == w
            } else {
                match g {
                    None => true,
                    Some((es, digest)) => (1..r.prefix_sorted.len())
                        .any(|k| &r.prefix_sorted[k] == es && &r.prefix_digest[k] == digest),
                }
            };
            if !ok {
                out.push(Finding {
                    class: "silent",
                    what: "log_to_builder-differs".into(),
                    detail: format!(
                        "replay built an SST with {:?} entries; the pristine log replays to {:?} entries",
                        g.as_ref().map(|x| x.0.len()),
                        w.as_ref().map(|x| x.0.len())
                    ),
                });
            }
        }
        _ => {}
    }
    match (&got.setsum, &want.setsum) {
        (Step::Panic(m), _) => out.push(Finding {
            class: "panic",
            what: format!("log_to_setsum-panic({})", sanitize(m)),
            detail: format!("log_to_setsum panicked: {m}"),
        }),
        (Step::Ok(g), Step::Ok(w)) => {
            let ok = if !prefix_ok {
                g == w
            } else {
                r.prefix_hex.contains(g)
            };
            if !ok {
                out.push(Finding {
                    class: "silent",
                    what: "log_to_setsum-differs".into(),
                    detail: format!("expected {w}, observed {g}"),
                });
            }
        }
        _ => {}
    }
    out
}

pub fn log_outcome(o: &LogObs) -> u64 {
    vcore::stable_hash(&(
        o.drain.1.class(),
        o.drain.0.len(),
        o.builder.class(),
        o.setsum.class(),
    ))
}

///////////////////////////////////////////// manifest /////////////////////////////////////////////

pub fn mani_code(e: &SError) -> String {
    mani::error_code(e).unwrap_or("uncoded").to_string()
}

pub type ManiState = (Vec<String>, Vec<(char, String)>);

#[derive(Clone, Debug)]
pub struct ManiObs {
    pub iter: (Vec<EditM>, Step<()>),
    pub verify: Step<()>,
    pub open: Step<ManiState>,
}

fn probe_chars() -> impl Iterator<Item = char> {
    (0u8..128).map(|b| b as char)
}

fn edit_model(e: &Edit) -> EditM {
    EditM {
        rm: e.rmed().cloned().collect(),
        add: e.added().cloned().collect(),
        info: probe_chars()
            .filter_map(|c| e.get_info(c).map(|s| (c, s.clone())))
            .collect(),
    }
}

/// `dir` holds the (possibly damaged) manifest directory; `file` is the damaged file.  The
/// iterator and the verifier only read; `Manifest::open` rolls the directory over and runs last.
pub fn observe_mani(ctx: &mut Ctx, dir: &Path, file: &Path) -> ManiObs {
    let mut edits = vec![];
    let iter_end = {
        let er = &mut edits;
        ctx.step("iterator", mani_code, move |calls| {
            let it = ManifestIterator::open(file)?;
            for e in it {
                *calls += 1;
                er.push(edit_model(&e?));
                if er.len() > 64 {
                    break;
                }
            }
            Ok(())
        })
    };
    let verify = ctx.step("verify", mani_code, |_| {
        let errs: Vec<SError> = Manifest::verify(crate::fixtures::mani_options(1000), dir).collect();
        match errs.into_iter().next() {
            None => Ok(()),
            Some(e) => Err(e),
        }
    });
    let open = ctx.step("open", mani_code, |_| {
        let m = Manifest::open(crate::fixtures::mani_options(1000), dir)?;
        let strs: Vec<String> = m.strs().map(|s| s.to_string()).collect();
        let info: Vec<(char, String)> = probe_chars()
            .filter_map(|c| m.info(c).map(|s| (c, s.to_string())))
            .collect();
        Ok((strs, info))
    });
    ManiObs {
        iter: (edits, iter_end),
        verify,
        open,
    }
}

/// The state after each prefix of whole edits (index 0: nothing applied).
pub fn mani_prefix_states(edits: &[EditM]) -> Vec<ManiState> {
    use std::collections::{BTreeMap, BTreeSet};
    let mut strs: BTreeSet<String> = BTreeSet::new();
    let mut info: BTreeMap<char, String> = BTreeMap::new();
    let mut out = vec![(vec![], vec![])];
    for e in edits {
        for s in e.rm.iter() {
            strs.remove(s);
        }
        for s in e.add.iter() {
            strs.insert(s.clone());
        }
        for (c, s) in e.info.iter() {
            info.insert(*c, s.clone());
        }
        out.push((
            strs.iter().cloned().collect(),
            info.iter().map(|(c, s)| (*c, s.clone())).collect(),
        ));
    }
    out
}

/// `prefix_ok`: a truncated manifest may legitimately read as a prefix of whole edits (property
/// C13's contract); `open_prefixes` are the states after each such prefix of the file that
/// `Manifest::open` reads (None when the damaged file is not that file).
pub fn compare_mani(
    got: &ManiObs,
    want: &ManiObs,
    prefix_ok: bool,
    open_prefixes: Option<&[ManiState]>,
) -> Vec<Finding> {
    let mut out = vec![];
    let (es, end) = &got.iter;
    let w = &want.iter.0;
    let first_diff = es.iter().zip(w.iter()).position(|(a, b)| a != b);
    let show = |i: usize| {
        format!(
            "edit {i}: expected {:?}, observed {:?}",
            w.get(i),
            es.get(i)
        )
    };
    match end {
        Step::Panic(m) => out.push(Finding {
            class: "panic",
            what: format!("iterator-panic({})", sanitize(m)),
            detail: format!("ManifestIterator panicked: {m}"),
        }),
        Step::Skipped => {}
        _ => {
            if let Some(i) = first_diff {
                out.push(Finding {
                    class: "silent",
                    what: "iterator-differs(changed-edit)".into(),
                    detail: show(i),
                });
            } else if es.len() > w.len() {
                let extra = &es[w.len()];
                let kind = if *extra == EditM::default() {
                    "extra-empty-edit"
                } else {
                    "extra-edit"
                };
                out.push(Finding {
                    class: "silent",
                    what: format!("iterator-differs({kind})"),
                    detail: show(w.len()),
                });
            } else if es.len() < w.len() && matches!(end, Step::Ok(())) && !prefix_ok {
                out.push(Finding {
                    class: "silent",
                    what: "iterator-differs(fewer-edits)".into(),
                    detail: format!(
                        "ended cleanly after {} of {} edits",
                        es.len(),
                        w.len()
                    ),
                });
            }
        }
    }
    if let Step::Panic(m) = &got.verify {
        out.push(Finding {
            class: "panic",
            what: format!("verify-panic({})", sanitize(m)),
            detail: format!("Manifest::verify panicked: {m}"),
        });
    }
    match (&got.open, &want.open) {
        (Step::Panic(m), _) => out.push(Finding {
            class: "panic",
            what: format!("open-panic({})", sanitize(m)),
            detail: format!("Manifest::open panicked: {m}"),
        }),
        (Step::Ok(g), Step::Ok(wst)) if g != wst => {
            let accepted = prefix_ok
                && open_prefixes
                    .map(|ps| ps.iter().any(|p| p == g))
                    .unwrap_or(false);
            if !accepted {
                out.push(Finding {
                    class: "silent",
                    what: "open-differs".into(),
                    detail: format!("expected state {wst:?}, observed {g:?}"),
                });
            }
        }
        _ => {}
    }
    out
}

pub fn mani_outcome(o: &ManiObs) -> u64 {
    vcore::stable_hash(&(
        o.iter.1.class(),
        o.iter.0.len(),
        o.verify.class(),
        o.open.class(),
    ))
}

/////////////////////////////////////////////// store //////////////////////////////////////////////

#[derive(Clone, Debug)]
pub struct StoreObs {
    pub open: Step<()>,
    pub loads: Vec<Step<(Option<Vec<u8>>, bool)>>,
    pub scan: (Vec<Entry>, Step<()>),
}

pub fn lsmtk_code(e: &SError) -> String {
    lsmtk::error_code(e).unwrap_or("uncoded").to_string()
}

pub fn store_probe_keys() -> Vec<Vec<u8>> {
    seqmc::store::PROBE_KEYS.iter().map(|k| k.to_vec()).collect()
}

pub fn observe_store(ctx: &mut Ctx, dir: &Path) -> StoreObs {
    let opts = crate::fixtures::store_cfg().options(dir);
    let open = ctx.step("open", lsmtk_code, |_| lsmtk::KeyValueStore::open(opts));
    let kvs = match open {
        Step::Ok(k) => k,
        Step::Err(c) => {
            return StoreObs {
                open: Step::Err(c),
                loads: vec![],
                scan: (vec![], Step::Skipped),
            };
        }
        Step::Panic(m) => {
            return StoreObs {
                open: Step::Panic(m),
                loads: vec![],
                scan: (vec![], Step::Skipped),
            };
        }
        Step::Skipped => unreachable!(),
    };
    let mut loads = vec![];
    for k in store_probe_keys() {
        loads.push(ctx.step("load", lsmtk_code, |_| {
            let mut tomb = false;
            let v = kvs.load(&k, &mut tomb)?;
            Ok((v, tomb))
        }));
    }
    let scan = walk_step(ctx, "scan", lsmtk_code, 64, true, || {
        kvs.range_scan::<&[u8]>(&Bound::Unbounded, &Bound::Unbounded)
    });
    StoreObs {
        open: Step::Ok(()),
        loads,
        scan,
    }
}

pub fn compare_store(got: &StoreObs, want: &StoreObs) -> Vec<Finding> {
    let mut out = vec![];
    if let Step::Panic(m) = &got.open {
        out.push(Finding {
            class: "panic",
            what: format!("open-panic({})", sanitize(m)),
            detail: format!("KeyValueStore::open panicked: {m}"),
        });
        return out;
    }
    let keys = store_probe_keys();
    for (i, g) in got.loads.iter().enumerate() {
        compare_load(g, &want.loads[i], &vcore::esc(&keys[i]), &mut out);
    }
    // values and keys; timestamps of the scan are compared too
    compare_walk("scan", &got.scan, &want.scan.0, &mut out);
    out
}

pub fn store_outcome(o: &StoreObs) -> u64 {
    let loads: Vec<String> = o.loads.iter().map(|l| l.class()).collect();
    vcore::stable_hash(&(o.open.class(), loads, o.scan.1.class(), o.scan.0.len()))
}
