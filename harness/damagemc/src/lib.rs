//! C09 damage mode: pristine SSTs, logs and manifests produced by the real builders, an
//! exhaustive enumeration of single damages (and pairs in the regions no checksum covers), and
//! read programs whose observation on a damaged file must be an error or exactly the observation
//! on the pristine file.

pub mod alloc;
pub mod damage;
pub mod fixtures;
pub mod observe;
pub mod pb;
