// shared helpers
