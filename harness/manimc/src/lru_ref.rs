//! Sequential reference for `sync42::lru::LeastRecentlyUsedCache` (C18) and the driver that runs
//! one operation sequence on the real cache while narrowing a *set* of admissible reference
//! states.
//!
//! What the reference fixes and what it leaves open:
//! * a lookup that hits is a use (moves the entry to the most-recently-used end) -- that is what
//!   "least recently used" means;
//! * inserting over an existing key replaces the value; whether that also counts as a use is not
//!   documented ("overwriting any existing key/value"), so both successor states are admissible;
//! * `insert` evicts least-recently-used entries while the accounted size exceeds the capacity
//!   (possibly the new entry itself when it alone is too big); `insert_no_evict` never evicts;
//! * the accounted size is the sum of the sizes of the entries; `pop` removes the least recently
//!   used entry; `remove` removes the key.

use sync42::lru::{LeastRecentlyUsedCache, Value};
use vcore::{Value as Json, json};

#[derive(Clone, Copy, Debug, PartialEq, Eq, Hash)]
pub enum LruOp {
    Insert(u8, usize),
    InsertNoEvict(u8, usize),
    Lookup(u8),
    Remove(u8),
    Pop,
}

impl LruOp {
    pub fn kind(&self) -> &'static str {
        match self {
            LruOp::Insert(..) => "insert",
            LruOp::InsertNoEvict(..) => "insert_no_evict",
            LruOp::Lookup(_) => "lookup",
            LruOp::Remove(_) => "remove",
            LruOp::Pop => "pop",
        }
    }

    pub fn to_json(&self) -> Json {
        match self {
            LruOp::Insert(k, s) => json!({"op": "insert", "k": k, "size": s}),
            LruOp::InsertNoEvict(k, s) => json!({"op": "insert_no_evict", "k": k, "size": s}),
            LruOp::Lookup(k) => json!({"op": "lookup", "k": k}),
            LruOp::Remove(k) => json!({"op": "remove", "k": k}),
            LruOp::Pop => json!({"op": "pop"}),
        }
    }

    pub fn from_json(v: &Json) -> LruOp {
        let k = || v["k"].as_u64().expect("k") as u8;
        let s = || v["size"].as_u64().expect("size") as usize;
        match v["op"].as_str().expect("op") {
            "insert" => LruOp::Insert(k(), s()),
            "insert_no_evict" => LruOp::InsertNoEvict(k(), s()),
            "lookup" => LruOp::Lookup(k()),
            "remove" => LruOp::Remove(k()),
            "pop" => LruOp::Pop,
            x => panic!("unknown lru op {x}"),
        }
    }

    pub fn show(&self) -> String {
        match self {
            LruOp::Insert(k, s) => format!("insert({k},size={s})"),
            LruOp::InsertNoEvict(k, s) => format!("insert_no_evict({k},size={s})"),
            LruOp::Lookup(k) => format!("lookup({k})"),
            LruOp::Remove(k) => format!("remove({k})"),
            LruOp::Pop => "pop".into(),
        }
    }
}

pub fn alphabet(keys: &[u8], sizes: &[usize]) -> Vec<LruOp> {
    let mut v = vec![];
    for &k in keys {
        for &s in sizes {
            v.push(LruOp::Insert(k, s));
        }
    }
    for &k in keys {
        v.push(LruOp::Lookup(k));
    }
    for &k in keys {
        v.push(LruOp::Remove(k));
    }
    v.push(LruOp::Pop);
    for &k in keys {
        for &s in sizes {
            v.push(LruOp::InsertNoEvict(k, s));
        }
    }
    v
}

/// The value stored in the real cache: a declared size and a tag (the step that inserted it).
#[derive(Clone, Debug, PartialEq, Eq)]
pub struct Val {
    pub size: usize,
    pub tag: u32,
}

impl Value for Val {
    fn approximate_size(&self) -> usize {
        self.size
    }
}

/// Entries from most to least recently used: (key, size, tag).
#[derive(Clone, Debug, Default, PartialEq, Eq, Hash, PartialOrd, Ord)]
pub struct RefState {
    pub list: Vec<(u8, usize, u32)>,
}

impl RefState {
    pub fn size(&self) -> usize {
        self.list.iter().map(|e| e.1).sum()
    }

    pub fn show(&self) -> String {
        format!(
            "[{}] (most recent first)",
            self.list
                .iter()
                .map(|(k, s, t)| format!("{k}:size{s}#{t}"))
                .collect::<Vec<_>>()
                .join(" ")
        )
    }
}

#[derive(Clone, Debug, PartialEq, Eq, Hash)]
pub enum Obs {
    Unit,
    Lookup(Option<(usize, u32)>),
    Pop(Option<(u8, usize, u32)>),
}

/// All admissible (successor, result) pairs of `op` in state `s`.
pub fn successors(s: &RefState, cap: usize, op: LruOp, tag: u32, lookup_must_refresh: bool) -> Vec<(RefState, Obs)> {
    let evict = |mut st: RefState| {
        while st.size() > cap && !st.list.is_empty() {
            st.list.pop();
        }
        st
    };
    match op {
        LruOp::Insert(k, sz) | LruOp::InsertNoEvict(k, sz) => {
            let do_evict = matches!(op, LruOp::Insert(..));
            let mut outs = vec![];
            if let Some(pos) = s.list.iter().position(|e| e.0 == k) {
                // overwrite in place
                let mut a = s.clone();
                a.list[pos] = (k, sz, tag);
                outs.push(a);
                // overwrite and count it as a use
                let mut b = s.clone();
                b.list.remove(pos);
                b.list.insert(0, (k, sz, tag));
                outs.push(b);
            } else {
                let mut a = s.clone();
                a.list.insert(0, (k, sz, tag));
                outs.push(a);
            }
            let mut outs: Vec<(RefState, Obs)> = outs
                .into_iter()
                .map(|st| (if do_evict { evict(st) } else { st }, Obs::Unit))
                .collect();
            outs.dedup();
            outs
        }
        LruOp::Lookup(k) => match s.list.iter().position(|e| e.0 == k) {
            None => vec![(s.clone(), Obs::Lookup(None))],
            Some(pos) => {
                let e = s.list[pos];
                let mut a = s.clone();
                a.list.remove(pos);
                a.list.insert(0, e);
                let mut outs = vec![(a, Obs::Lookup(Some((e.1, e.2))))];
                if !lookup_must_refresh && pos != 0 {
                    outs.push((s.clone(), Obs::Lookup(Some((e.1, e.2)))));
                }
                outs
            }
        },
        LruOp::Remove(k) => {
            let mut a = s.clone();
            a.list.retain(|e| e.0 != k);
            vec![(a, Obs::Unit)]
        }
        LruOp::Pop => {
            let mut a = s.clone();
            match a.list.pop() {
                Some(e) => vec![(a, Obs::Pop(Some(e)))],
                None => vec![(a, Obs::Pop(None))],
            }
        }
    }
}

#[derive(Clone, Debug, PartialEq, Eq)]
pub struct LruFinding {
    pub signature: String,
    pub detail: String,
}

pub struct LruRun {
    pub finding: Option<LruFinding>,
    /// result of the last operation and the drained content (key, size), least recent first
    pub last: Option<Obs>,
    pub drained: Vec<(u8, usize)>,
    pub calls: u64,
    pub evicted: bool,
    pub over_capacity: bool,
    pub ambiguous: bool,
    pub max_states: usize,
}

fn apply_real(c: &LeastRecentlyUsedCache<u8, Val>, op: LruOp, tag: u32) -> Obs {
    match op {
        LruOp::Insert(k, size) => {
            c.insert(k, Val { size, tag });
            Obs::Unit
        }
        LruOp::InsertNoEvict(k, size) => {
            c.insert_no_evict(k, Val { size, tag });
            Obs::Unit
        }
        LruOp::Lookup(k) => Obs::Lookup(c.lookup(&k).map(|v| (v.size, v.tag))),
        LruOp::Remove(k) => {
            c.remove(&k);
            Obs::Unit
        }
        LruOp::Pop => Obs::Pop(c.pop().map(|(k, v)| (k, v.size, v.tag))),
    }
}

/// Run `ops` on a fresh real cache of capacity `cap`, checking every result and the accounted
/// size after every call, then drain it with `pop` and check the order.
pub fn run(cap: usize, ops: &[LruOp], lookup_must_refresh: bool) -> LruRun {
    let mut out = LruRun {
        finding: None,
        last: None,
        drained: vec![],
        calls: 0,
        evicted: false,
        over_capacity: false,
        ambiguous: false,
        max_states: 1,
    };
    // The cache's Drop takes its mutex with unwrap(): if the subject panics with the mutex held,
    // dropping the cache while unwinding would panic again and abort the process.  So the cache
    // is only dropped on the normal path and leaked after a panic.
    let mut cache: std::mem::ManuallyDrop<LeastRecentlyUsedCache<u8, Val>> =
        std::mem::ManuallyDrop::new(LeastRecentlyUsedCache::new(cap));
    let r = vcore::catch(|| run_inner(&cache, cap, ops, lookup_must_refresh, &mut out));
    let r = match r {
        Ok(()) => vcore::catch(|| unsafe { std::mem::ManuallyDrop::drop(&mut cache) }),
        Err(p) => Err(p),
    };
    if let Err(p) = r {
        out.finding = Some(LruFinding {
            signature: "c18:lru:panic".into(),
            detail: format!("the cache panicked: {p}"),
        });
    }
    out
}

fn run_inner(cache: &LeastRecentlyUsedCache<u8, Val>, cap: usize, ops: &[LruOp], lookup_must_refresh: bool, out: &mut LruRun) {
    let mut states = vec![RefState::default()];
    let mut excess_allowed = false;
    out.calls += 1;
    if cache.approximate_size() != 0 {
        out.finding = Some(LruFinding {
            signature: "c18:lru:accounted-size-differs:new".into(),
            detail: format!("a new cache reports size {}", cache.approximate_size()),
        });
        return;
    }
    let total = ops.len();
    let mut step = 0usize;
    loop {
        // the enumerated operations, then pops until the cache reports empty
        let (op, draining) = if step < total {
            (ops[step], false)
        } else {
            (LruOp::Pop, true)
        };
        let tag = step as u32 + 1;
        let obs = apply_real(cache, op, tag);
        let size = cache.approximate_size();
        out.calls += 2;
        let phase = if draining { "final-drain" } else { op.kind() };
        // reference
        let mut next: Vec<(RefState, Obs)> = vec![];
        for s in states.iter() {
            next.extend(successors(s, cap, op, tag, lookup_must_refresh));
        }
        let before = states.clone();
        let overwrite = match op {
            LruOp::Insert(k, _) | LruOp::InsertNoEvict(k, _) => before[0].list.iter().any(|e| e.0 == k),
            _ => false,
        };
        let feat = if overwrite { ":overwrite" } else { "" };
        let mut ok: Vec<RefState> = next.iter().filter(|(_, o)| *o == obs).map(|(s, _)| s.clone()).collect();
        if ok.is_empty() {
            let what = match (&obs, draining) {
                (Obs::Pop(_), true) => "order-not-least-recently-used",
                (Obs::Pop(_), false) => "popped-entry-not-least-recently-used",
                (Obs::Lookup(_), _) => "lookup-result-differs",
                _ => "result-differs",
            };
            out.finding = Some(LruFinding {
                signature: format!("c18:lru:{phase}:{what}"),
                detail: format!(
                    "capacity {cap}, step {step} {}: admissible results {:?} from reference state(s) {}; observed {:?}",
                    op.show(),
                    next.iter().map(|(_, o)| o.clone()).collect::<Vec<_>>(),
                    before.iter().map(|s| s.show()).collect::<Vec<_>>().join(" | "),
                    obs
                ),
            });
            return;
        }
        ok.sort();
        ok.dedup();
        let sized: Vec<RefState> = ok.iter().filter(|s| s.size() == size).cloned().collect();
        if sized.is_empty() {
            out.finding = Some(LruFinding {
                signature: format!("c18:lru:{phase}:accounted-size-differs{feat}"),
                detail: format!(
                    "capacity {cap}, after step {step} {}: expected accounted size {:?} (sum of entry sizes of {}); observed approximate_size() = {size}",
                    op.show(),
                    ok.iter().map(|s| s.size()).collect::<Vec<_>>(),
                    ok.iter().map(|s| s.show()).collect::<Vec<_>>().join(" | "),
                ),
            });
            return;
        }
        // the explicit capacity rule of the property
        match op {
            LruOp::InsertNoEvict(..) => excess_allowed = true,
            LruOp::Insert(..) => excess_allowed = false,
            _ => {}
        }
        if size > cap {
            out.over_capacity = true;
            if !excess_allowed {
                out.finding = Some(LruFinding {
                    signature: format!("c18:lru:{phase}:size-exceeds-capacity-without-no-evict"),
                    detail: format!(
                        "capacity {cap}, after step {step} {}: size {size} > capacity although no insert_no_evict happened since the last evicting insert",
                        op.show()
                    ),
                });
                return;
            }
        }
        if let LruOp::Insert(..) = op {
            let n_before = before[0].list.len() + if overwrite { 0 } else { 1 };
            if sized[0].list.len() < n_before {
                out.evicted = true;
            }
        }
        states = sized;
        if states.len() > 1 {
            out.ambiguous = true;
        }
        out.max_states = out.max_states.max(states.len());
        if !draining {
            if step + 1 == total {
                out.last = Some(match &obs {
                    // tags are step numbers; keep the shape only
                    Obs::Lookup(Some((s, _))) => Obs::Lookup(Some((*s, 0))),
                    Obs::Pop(Some((k, s, _))) => Obs::Pop(Some((*k, *s, 0))),
                    o => o.clone(),
                });
            }
        } else {
            match obs {
                Obs::Pop(Some((k, s, _))) => out.drained.push((k, s)),
                _ => break,
            }
        }
        step += 1;
        if step > total + 16 {
            out.finding = Some(LruFinding {
                signature: "c18:lru:final-drain:does-not-empty".into(),
                detail: format!("capacity {cap}: 16 pops did not empty a cache of at most 3 keys"),
            });
            return;
        }
    }
}
