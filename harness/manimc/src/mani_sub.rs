//! The manifest subject (C13, sequential half): operations, a boring reference model, one run of
//! one edit history on the real `mani::Manifest`, and the oracles evaluated at the end of a run.
//!
//! Reference model: `BTreeSet<String>` + `BTreeMap<char, String>`, updated by every `apply` that
//! returned `Ok`.  One edit that adds and removes the *same* string is ambiguous in the crate's
//! documentation ("An edit adds some strings and removes others"), so the reference keeps a set of
//! admissible models there (present / absent) and narrows it by what the live manifest reports;
//! the reopened manifest must then agree with the surviving model.

use std::collections::{BTreeMap, BTreeSet};
use std::path::{Path, PathBuf};

use arrrg::CommandLine;
use mani::{Edit, Manifest, ManifestIterator, ManifestOptions};
use vcore::{Scratch, Value, json};

/////////////////////////////////////////////// Op ////////////////////////////////////////////////

#[derive(Clone, Debug, PartialEq, Eq, Hash, PartialOrd, Ord)]
pub enum Op {
    Add(String),
    Rm(String),
    Info(char, String),
    /// add s1 and remove s2 in one edit
    AddRm(String, String),
    Empty,
    Rollover,
    Reopen,
}

impl Op {
    pub fn kind(&self) -> &'static str {
        match self {
            Op::Add(_) => "add",
            Op::Rm(_) => "rm",
            Op::Info(_, _) => "info",
            Op::AddRm(_, _) => "add+rm",
            Op::Empty => "empty-edit",
            Op::Rollover => "rollover",
            Op::Reopen => "reopen",
        }
    }

    pub fn to_json(&self) -> Value {
        match self {
            Op::Add(s) => json!({"op": "add", "s": s}),
            Op::Rm(s) => json!({"op": "rm", "s": s}),
            Op::Info(c, s) => json!({"op": "info", "c": c.to_string(), "s": s}),
            Op::AddRm(a, r) => json!({"op": "add+rm", "add": a, "rm": r}),
            Op::Empty => json!({"op": "empty-edit"}),
            Op::Rollover => json!({"op": "rollover"}),
            Op::Reopen => json!({"op": "reopen"}),
        }
    }

    pub fn from_json(v: &Value) -> Op {
        let s = |k: &str| v[k].as_str().unwrap_or_else(|| panic!("op lacks {k}")).to_string();
        match v["op"].as_str().expect("op") {
            "add" => Op::Add(s("s")),
            "rm" => Op::Rm(s("s")),
            "info" => Op::Info(s("c").chars().next().expect("info key"), s("s")),
            "add+rm" => Op::AddRm(s("add"), s("rm")),
            "empty-edit" => Op::Empty,
            "rollover" => Op::Rollover,
            "reopen" => Op::Reopen,
            x => panic!("unknown op {x}"),
        }
    }

    pub fn show(&self) -> String {
        fn q(s: &str) -> String {
            if s.len() > 40 {
                format!("<{} bytes of '{}'>", s.len(), &s[..1])
            } else {
                format!("{s:?}")
            }
        }
        match self {
            Op::Add(s) => format!("add({})", q(s)),
            Op::Rm(s) => format!("rm({})", q(s)),
            Op::Info(c, s) => format!("info({c:?},{})", q(s)),
            Op::AddRm(a, r) => format!("add({})+rm({})", q(a), q(r)),
            Op::Empty => "empty-edit".into(),
            Op::Rollover => "rollover".into(),
            Op::Reopen => "reopen".into(),
        }
    }
}

pub fn ops_to_json(ops: &[Op]) -> Value {
    Value::Array(ops.iter().map(|o| o.to_json()).collect())
}

pub fn ops_from_json(v: &Value) -> Vec<Op> {
    v.as_array().expect("ops array").iter().map(Op::from_json).collect()
}

pub fn show_ops(ops: &[Op]) -> String {
    format!("[{}]", ops.iter().map(|o| o.show()).collect::<Vec<_>>().join(", "))
}

///////////////////////////////////////////// Alphabet ////////////////////////////////////////////

pub const LONG_LEN: usize = 250;

pub fn long_string() -> String {
    "l".repeat(LONG_LEN)
}

#[derive(Clone, Debug)]
pub struct Alphabet {
    pub name: &'static str,
    /// strings of add / rm / info values
    pub strings: Vec<String>,
    pub keys: Vec<char>,
    /// strings of the add-one-remove-another edit (all ordered pairs, including equal ones)
    pub pair_strings: Vec<String>,
}

impl Alphabet {
    /// The alphabet of the task statement: 10 strings, 4 info keys, all 100 pairs.
    pub fn full() -> Self {
        let strings: Vec<String> = vec![
            "x".into(),
            "y".into(),
            "a b".into(),
            "+x".into(),
            "-x".into(),
            "--------".into(),
            long_string(),
            "".into(),
            "é".into(),
            "a\r".into(),
        ];
        Alphabet {
            name: "full",
            pair_strings: strings.clone(),
            strings,
            keys: vec!['I', '+', '-', 'é'],
        }
    }

    /// Printable-ASCII, non-empty strings and an alphanumeric info key only: the part of the full
    /// alphabet that the reader's line format can represent at all; used for the deep runs.
    pub fn core() -> Self {
        let strings: Vec<String> = vec![
            "x".into(),
            "y".into(),
            "a b".into(),
            "+x".into(),
            "-x".into(),
            "--------".into(),
            long_string(),
        ];
        Alphabet {
            name: "core",
            strings,
            keys: vec!['I'],
            pair_strings: vec!["x".into(), "y".into(), "--------".into()],
        }
    }

    /// A still smaller alphabet for the deepest runs.
    pub fn tiny() -> Self {
        Alphabet {
            name: "tiny",
            strings: vec!["x".into(), "--------".into(), long_string()],
            keys: vec!['I'],
            pair_strings: vec!["x".into(), "--------".into()],
        }
    }

    pub fn by_name(n: &str) -> Self {
        match n {
            "full" => Self::full(),
            "core" => Self::core(),
            "tiny" => Self::tiny(),
            _ => panic!("unknown alphabet {n}"),
        }
    }

    /// Client edits first, then the structural steps (so depth-first order meets the simplest
    /// counterexample first).
    pub fn symbols(&self) -> Vec<Op> {
        let mut v = vec![];
        for s in self.strings.iter() {
            v.push(Op::Add(s.clone()));
        }
        for s in self.strings.iter() {
            v.push(Op::Rm(s.clone()));
        }
        for c in self.keys.iter() {
            for s in self.strings.iter() {
                v.push(Op::Info(*c, s.clone()));
            }
        }
        for a in self.pair_strings.iter() {
            for r in self.pair_strings.iter() {
                v.push(Op::AddRm(a.clone(), r.clone()));
            }
        }
        v.push(Op::Empty);
        v.push(Op::Rollover);
        v.push(Op::Reopen);
        v
    }

    pub fn to_json(&self) -> Value {
        let show = |s: &String| {
            if s.len() > 40 {
                format!("<{} x 'l'>", s.len())
            } else {
                format!("{s:?}")
            }
        };
        json!({
            "name": self.name,
            "strings": self.strings.iter().map(show).collect::<Vec<_>>(),
            "info_keys": self.keys.iter().map(|c| c.to_string()).collect::<Vec<_>>(),
            "pair_strings": self.pair_strings.iter().map(show).collect::<Vec<_>>(),
            "symbols": self.symbols().len(),
        })
    }
}

////////////////////////////////////////////// Options ////////////////////////////////////////////

/// `ManifestOptions` has private fields; the public way to set them is the command-line parser.
pub fn options(ratio: u64, fail_if_locked: bool) -> ManifestOptions {
    let r = ratio.to_string();
    let mut a: Vec<&str> = vec!["--log-rollover-ratio", &r];
    if fail_if_locked {
        a.push("--fail-if-locked");
    }
    let (o, free) = ManifestOptions::from_arguments_relaxed("verif", &a);
    assert!(free.is_empty(), "option parser left free arguments {free:?}");
    o
}

/// Machinery self-check: the parser really sets what we ask for.
pub fn options_selfcheck() {
    for r in [1u64, 2, 1000] {
        for l in [false, true] {
            let d = format!("{:?}", options(r, l));
            assert!(
                d.contains(&format!("log_rollover_ratio: {r}"))
                    && d.contains(&format!("fail_if_locked: {l}"))
                    && d.contains("fail_if_exists: false")
                    && d.contains("fail_if_not_exist: false"),
                "option parser produced {d}"
            );
        }
    }
}

/////////////////////////////////////////////// Model /////////////////////////////////////////////

#[derive(Clone, Debug, Default, PartialEq, Eq, Hash, PartialOrd, Ord)]
pub struct Model {
    pub strs: BTreeSet<String>,
    pub info: BTreeMap<char, String>,
}

impl Model {
    pub fn show(&self) -> String {
        fn q(s: &str) -> String {
            if s.len() > 40 {
                format!("<{}B>", s.len())
            } else {
                format!("{s:?}")
            }
        }
        format!(
            "strs={{{}}} info={{{}}}",
            self.strs.iter().map(|s| q(s)).collect::<Vec<_>>().join(","),
            self.info
                .iter()
                .map(|(c, s)| format!("{c:?}:{}", q(s)))
                .collect::<Vec<_>>()
                .join(",")
        )
    }

    pub fn bytes(&self) -> u64 {
        self.strs.iter().map(|s| s.len() as u64).sum::<u64>()
            + self.info.values().map(|s| s.len() as u64).sum::<u64>()
    }
}

/// Successor models of one edit that was accepted (`add` and `rm` sets, info updates).
fn model_apply(
    m: &Model,
    add: &BTreeSet<String>,
    rm: &BTreeSet<String>,
    info: &BTreeMap<char, String>,
) -> Vec<Model> {
    let mut base = m.clone();
    for (c, s) in info.iter() {
        base.info.insert(*c, s.clone());
    }
    let both: Vec<&String> = add.intersection(rm).collect();
    for s in rm.iter() {
        if !add.contains(s) {
            base.strs.remove(s);
        }
    }
    for s in add.iter() {
        if !rm.contains(s) {
            base.strs.insert(s.clone());
        }
    }
    // strings both added and removed by the same edit: either reading is admissible
    let mut out = vec![base];
    for s in both {
        let mut next = vec![];
        for m in out.into_iter() {
            let mut with = m.clone();
            with.strs.insert(s.clone());
            let mut without = m;
            without.strs.remove(s);
            next.push(with);
            next.push(without);
        }
        out = next;
    }
    out.sort();
    out.dedup();
    out
}

/// Info keys we can ask a manifest or an edit about (the API only offers lookup by key): all of
/// ASCII plus the non-ASCII key of the alphabet.
fn probe_keys() -> impl Iterator<Item = char> {
    let extra: Vec<char> = EXTRA_KEYS.with(|k| k.borrow().iter().copied().collect());
    (0u8..128).map(|b| b as char).chain(['é', 'ÿ', '\u{80}']).chain(extra)
}

thread_local! {
    /// info keys used by the history being run (so that non-ASCII keys are asked about too)
    static EXTRA_KEYS: std::cell::RefCell<BTreeSet<char>> = const { std::cell::RefCell::new(BTreeSet::new()) };
}

fn note_keys(ops: &[Op]) {
    EXTRA_KEYS.with(|k| {
        let mut k = k.borrow_mut();
        k.clear();
        for op in ops {
            if let Op::Info(c, _) = op {
                if !c.is_ascii() {
                    k.insert(*c);
                }
            }
        }
    });
}

pub fn observe(m: &Manifest) -> Model {
    let strs: BTreeSet<String> = m.strs().map(|s| s.to_string()).collect();
    let mut info = BTreeMap::new();
    for c in probe_keys() {
        if let Some(s) = m.info(c) {
            info.insert(c, s.to_string());
        }
    }
    Model { strs, info }
}

//////////////////////////////////////// reading fragments ////////////////////////////////////////

#[derive(Clone, Debug, Default, PartialEq, Eq)]
pub struct EditView {
    pub add: BTreeSet<String>,
    pub rm: BTreeSet<String>,
    pub info: BTreeMap<char, String>,
}

fn view(e: &Edit) -> EditView {
    let mut info = BTreeMap::new();
    for c in probe_keys() {
        if let Some(s) = e.get_info(c) {
            info.insert(c, s.clone());
        }
    }
    EditView {
        add: e.added().cloned().collect(),
        rm: e.rmed().cloned().collect(),
        info,
    }
}

/// All complete edits of one manifest file, through the crate's public iterator.
pub fn read_fragment(path: &Path) -> Result<Vec<EditView>, String> {
    let it = ManifestIterator::open(path).map_err(|e| e.to_string())?;
    let mut v = vec![];
    for e in it {
        match e {
            Ok(e) => v.push(view(&e)),
            Err(e) => return Err(e.to_string()),
        }
    }
    Ok(v)
}

fn fold(edits: &[EditView]) -> Vec<Model> {
    let mut ms = vec![Model::default()];
    for e in edits {
        let mut next = vec![];
        for m in ms.iter() {
            next.extend(model_apply(m, &e.add, &e.rm, &e.info));
        }
        next.sort();
        next.dedup();
        ms = next;
    }
    ms
}

fn rollup(m: &Model) -> EditView {
    EditView {
        add: m.strs.clone(),
        rm: BTreeSet::new(),
        info: m.info.clone(),
    }
}

/// (backup ids sorted, live MANIFEST exists)
pub fn list_fragments(dir: &Path) -> (Vec<u64>, bool) {
    let mut ids = vec![];
    let mut live = false;
    if let Ok(rd) = std::fs::read_dir(dir) {
        for e in rd.flatten() {
            let name = e.file_name().to_string_lossy().to_string();
            if name == "MANIFEST" {
                live = true;
            } else if let Some(n) = name.strip_prefix("MANIFEST.") {
                if let Ok(n) = n.parse::<u64>() {
                    ids.push(n);
                }
            }
        }
    }
    ids.sort();
    (ids, live)
}

////////////////////////////////////////////// one run ////////////////////////////////////////////

#[derive(Clone, Debug, PartialEq, Eq, Hash)]
pub enum StepRes {
    Applied,
    /// `Edit::add/rm/info` refused the string (model unchanged)
    EditRejected(String),
    ApplyErr(String),
    RolloverOk,
    RolloverErr(String),
    ReopenOk,
    ReopenErr(String),
}

#[derive(Clone, Debug, PartialEq, Eq)]
pub struct Finding {
    /// which oracle failed (stable identifier)
    pub oracle: String,
    pub detail: String,
}

pub struct RunOut {
    pub steps: Vec<StepRes>,
    pub finding: Option<Finding>,
    pub model: Model,
    /// MANIFEST.k files present before the final drop (rollovers that happened during the history)
    pub backups_before_final: usize,
    pub fragments_final: usize,
    pub calls: u64,
    pub cut_short: bool,
}


fn short<E: std::fmt::Display>(code: Option<&str>, e: &E) -> (String, String) {
    (code.unwrap_or("other").to_string(), e.to_string())
}

fn finding(oracle: &str, detail: String) -> Option<Finding> {
    Some(Finding {
        oracle: oracle.to_string(),
        detail,
    })
}

/// Execute `ops` on a fresh manifest in `scratch` and evaluate the oracles.  Panics of the subject
/// are caught and reported as a finding.
pub fn run(scratch: &Scratch, ratio: u64, ops: &[Op]) -> RunOut {
    match vcore::catch(|| run_inner(scratch, ratio, ops)) {
        Ok(o) => o,
        Err(p) => RunOut {
            steps: vec![],
            finding: finding("panic", format!("the manifest code panicked: {p}")),
            model: Model::default(),
            backups_before_final: 0,
            fragments_final: 0,
            calls: 0,
            cut_short: true,
        },
    }
}

fn run_inner(scratch: &Scratch, ratio: u64, ops: &[Op]) -> RunOut {
    note_keys(ops);
    scratch.clear();
    let dir = scratch.sub("m");
    let opts = options(ratio, false);
    let mut out = RunOut {
        steps: vec![],
        finding: None,
        model: Model::default(),
        backups_before_final: 0,
        fragments_final: 0,
        calls: 1,
        cut_short: false,
    };
    let mut m = match Manifest::open(opts.clone(), &dir) {
        Ok(m) => Some(m),
        Err(e) => {
            out.finding = finding("fresh-open-error", format!("Manifest::open on a fresh directory failed: {e}"));
            out.cut_short = true;
            return out;
        }
    };
    let mut cands = vec![Model::default()];
    for (i, op) in ops.iter().enumerate() {
        let mut add = BTreeSet::new();
        let mut rm = BTreeSet::new();
        let mut info = BTreeMap::new();
        let mut is_edit = true;
        match op {
            Op::Add(s) => {
                add.insert(s.clone());
            }
            Op::Rm(s) => {
                rm.insert(s.clone());
            }
            Op::Info(c, s) => {
                info.insert(*c, s.clone());
            }
            Op::AddRm(a, r) => {
                add.insert(a.clone());
                rm.insert(r.clone());
            }
            Op::Empty => {}
            Op::Rollover | Op::Reopen => is_edit = false,
        }
        if is_edit {
            let mut e = Edit::default();
            let mut rejected = None;
            for s in add.iter() {
                out.calls += 1;
                if let Err(err) = e.add(s) {
                    rejected = Some(short(mani::error_code(&err), &err).0);
                }
            }
            for s in rm.iter() {
                out.calls += 1;
                if let Err(err) = e.rm(s) {
                    rejected = Some(short(mani::error_code(&err), &err).0);
                }
            }
            for (c, s) in info.iter() {
                out.calls += 1;
                if let Err(err) = e.info(*c, s) {
                    rejected = Some(short(mani::error_code(&err), &err).0);
                }
            }
            if let Some(code) = rejected {
                out.steps.push(StepRes::EditRejected(code));
                continue;
            }
            out.calls += 1;
            match m.as_mut().unwrap().apply(e) {
                Ok(()) => {
                    let mut next = vec![];
                    for c in cands.iter() {
                        next.extend(model_apply(c, &add, &rm, &info));
                    }
                    next.sort();
                    next.dedup();
                    cands = next;
                    out.steps.push(StepRes::Applied);
                }
                Err(err) => out.steps.push(StepRes::ApplyErr(short(mani::error_code(&err), &err).0)),
            }
        } else if *op == Op::Rollover {
            out.calls += 1;
            match m.as_mut().unwrap().rollover() {
                Ok(()) => out.steps.push(StepRes::RolloverOk),
                Err(err) => out.steps.push(StepRes::RolloverErr(short(mani::error_code(&err), &err).0)),
            }
        } else {
            out.calls += 1;
            drop(m.take());
            match Manifest::open(opts.clone(), &dir) {
                Ok(n) => {
                    m = Some(n);
                    out.steps.push(StepRes::ReopenOk);
                }
                Err(err) => {
                    let (code, text) = short(mani::error_code(&err), &err);
                    out.steps.push(StepRes::ReopenErr(code));
                    out.finding = finding(
                        "accepted-edit-unreadable",
                        format!(
                            "step {i} (reopen): every edit so far was accepted by Edit and apply() returned Ok, expected Manifest::open = Ok with {}; observed Err: {text}",
                            cands[0].show()
                        ),
                    );
                    out.model = cands[0].clone();
                    out.cut_short = true;
                    return out;
                }
            }
        }
        // oracle (i) after every step: the live object equals the reference
        let live = m.as_ref().unwrap();
        let obs = observe(live);
        let before = cands.clone();
        cands.retain(|c| *c == obs);
        if cands.is_empty() || live.size() != obs.bytes() {
            let oracle = if *op == Op::Reopen {
                "accepted-edit-misread"
            } else {
                "in-memory-state-differs"
            };
            out.finding = finding(
                oracle,
                format!(
                    "after step {i} ({}): expected {}{}; observed {} (size() = {})",
                    op.show(),
                    before[0].show(),
                    if before.len() > 1 { " (or the other admissible reading of add+rm of one string)" } else { "" },
                    obs.show(),
                    live.size()
                ),
            );
            out.model = before[0].clone();
            out.cut_short = true;
            return out;
        }
    }
    let model = cands[0].clone();
    out.model = model.clone();
    out.backups_before_final = list_fragments(&dir).0.len();
    // oracle (v): a second open while the first is alive must not succeed
    out.calls += 1;
    match Manifest::open(options(ratio, true), &dir) {
        Ok(_second) => {
            out.finding = finding(
                "second-open-succeeded",
                "Manifest::open(fail_if_locked) returned Ok while another Manifest on the same directory is alive; expected an error".to_string(),
            );
            return out;
        }
        Err(_) => {}
    }
    // oracle (ii): drop + open yields exactly the model
    drop(m.take());
    out.calls += 1;
    match Manifest::open(opts.clone(), &dir) {
        Err(err) => {
            out.finding = finding(
                "accepted-edit-unreadable",
                format!(
                    "every edit was accepted by Edit and apply() returned Ok; expected drop + Manifest::open = Ok with {}; observed Err: {err}",
                    model.show()
                ),
            );
            return out;
        }
        Ok(m2) => {
            let obs = observe(&m2);
            if obs != model {
                out.finding = finding(
                    "accepted-edit-misread",
                    format!(
                        "drop + Manifest::open: expected {}; observed {}",
                        model.show(),
                        obs.show()
                    ),
                );
                return out;
            }
        }
    }
    // oracle (iii): the crate's own verifier is silent
    out.calls += 1;
    let errs: Vec<String> = Manifest::verify(opts.clone(), &dir).map(|e| e.to_string()).collect();
    if !errs.is_empty() {
        out.finding = finding(
            "verify-reports-error",
            format!("Manifest::verify: expected no error; observed {} error(s), first: {}", errs.len(), errs[0]),
        );
        return out;
    }
    // oracle (iv): fragments chain
    let (f, n) = check_chain(&dir, &model);
    out.fragments_final = n;
    out.calls += n as u64;
    out.finding = f;
    out
}

/// Every fragment after the first begins with the roll-up of the complete state of its
/// predecessor; ids are consecutive; the live file folds to the model.
pub fn check_chain(dir: &Path, model: &Model) -> (Option<Finding>, usize) {
    let (ids, live) = list_fragments(dir);
    for w in ids.windows(2) {
        if w[1] != w[0] + 1 {
            return (
                finding("fragment-id-gap", format!("backup fragments present: {ids:?}; expected consecutive ids")),
                ids.len(),
            );
        }
    }
    let mut files: Vec<(String, PathBuf)> = ids
        .iter()
        .map(|k| (format!("MANIFEST.{k}"), dir.join(format!("MANIFEST.{k}"))))
        .collect();
    if live {
        files.push(("MANIFEST".to_string(), dir.join("MANIFEST")));
    } else if !ids.is_empty() || *model != Model::default() {
        return (
            finding("live-manifest-missing", format!("no MANIFEST file although backups {ids:?} exist or the state is non-empty ({})", model.show())),
            ids.len(),
        );
    }
    let n = files.len();
    let mut prev: Option<(String, Vec<Model>)> = None;
    for (name, path) in files.iter() {
        let edits = match read_fragment(path) {
            Ok(e) => e,
            Err(e) => {
                return (finding("fragment-unreadable", format!("{name}: ManifestIterator reports {e}")), n);
            }
        };
        if let Some((pname, pstates)) = prev.as_ref() {
            let ok = match edits.first() {
                None => false,
                Some(first) => pstates.iter().any(|s| rollup(s) == *first),
            };
            if !ok {
                return (
                    finding(
                        "fragment-chain-broken",
                        format!(
                            "{name} must begin with the roll-up of the complete state of {pname} ({}); its first edit is {:?}",
                            pstates[0].show(),
                            edits.first()
                        ),
                    ),
                    n,
                );
            }
        }
        prev = Some((name.clone(), fold(&edits)));
    }
    if let Some((name, states)) = prev.as_ref() {
        if !states.contains(model) {
            return (
                finding(
                    "live-manifest-state-differs",
                    format!("{name} folds to {}; expected {}", states[0].show(), model.show()),
                ),
                n,
            );
        }
    }
    (None, n)
}

//////////////////////////////////////////// truncation ///////////////////////////////////////////

/// The pristine directory of a truncation experiment and the reference's prefix states.
pub struct Pristine {
    pub dir: PathBuf,
    /// state after 0, 1, ... accepted edits
    pub prefix_states: Vec<Model>,
    pub manifest_len: usize,
    pub calls: u64,
}

/// Run `ops` on a fresh manifest in `scratch/pristine`, drop it, and return the prefix states.
/// Returns Err when the history itself misbehaves (those are findings of the sequence check, not
/// of the truncation check).
pub fn build_pristine(scratch: &Scratch, ratio: u64, ops: &[Op]) -> Result<Pristine, String> {
    note_keys(ops);
    let dir = scratch.sub("pristine");
    let _ = std::fs::remove_dir_all(&dir);
    let opts = options(ratio, false);
    let mut calls = 1u64;
    let mut m = Some(Manifest::open(opts.clone(), &dir).map_err(|e| e.to_string())?);
    let mut states = vec![Model::default()];
    for op in ops {
        let cur = states.last().unwrap().clone();
        let mut e = Edit::default();
        let mut add = BTreeSet::new();
        let mut rm = BTreeSet::new();
        let mut info = BTreeMap::new();
        match op {
            Op::Add(s) => {
                add.insert(s.clone());
            }
            Op::Rm(s) => {
                rm.insert(s.clone());
            }
            Op::Info(c, s) => {
                info.insert(*c, s.clone());
            }
            Op::AddRm(a, r) => {
                add.insert(a.clone());
                rm.insert(r.clone());
            }
            Op::Empty => {}
            Op::Rollover => {
                calls += 1;
                // a rollover before the first edit fails (nothing to link); that is not our concern
                let _ = m.as_mut().unwrap().rollover();
                continue;
            }
            Op::Reopen => {
                calls += 1;
                drop(m.take());
                m = Some(Manifest::open(opts.clone(), &dir).map_err(|e| format!("reopen: {e}"))?);
                if observe(m.as_ref().unwrap()) != cur {
                    return Err("reopen changed the state".into());
                }
                continue;
            }
        }
        for s in add.iter() {
            e.add(s).map_err(|e| e.to_string())?;
        }
        for s in rm.iter() {
            e.rm(s).map_err(|e| e.to_string())?;
        }
        for (c, s) in info.iter() {
            e.info(*c, s).map_err(|e| e.to_string())?;
        }
        calls += 1;
        m.as_mut().unwrap().apply(e).map_err(|e| e.to_string())?;
        let obs = observe(m.as_ref().unwrap());
        let next = model_apply(&cur, &add, &rm, &info);
        if !next.contains(&obs) {
            return Err("in-memory state differs from the reference".into());
        }
        states.push(obs);
    }
    drop(m.take());
    let manifest_len = std::fs::metadata(dir.join("MANIFEST")).map(|m| m.len() as usize).unwrap_or(0);
    Ok(Pristine {
        dir,
        prefix_states: states,
        manifest_len,
        calls,
    })
}

#[derive(Clone, Debug, PartialEq, Eq, Hash)]
pub enum CutOutcome {
    /// reopen succeeded with the state after this many accepted edits
    Prefix(usize),
    /// reopen failed with an explicit error of this code
    Error(String),
    /// reopen succeeded with a state that is no prefix state
    NotAPrefix(String),
    Panic(String),
    /// reopen gave the state after this many edits, but an edit applied to the reopened manifest
    /// and a further reopen did not give that state plus the edit
    FollowUp(usize, String),
}

/// Copy the pristine directory, cut MANIFEST to `cut` bytes, reopen.
pub fn cut_and_reopen(scratch: &Scratch, p: &Pristine, ratio: u64, cut: usize) -> CutOutcome {
    let work = scratch.sub("work");
    let _ = std::fs::remove_dir_all(&work);
    vcore::copy_dir(&p.dir, &work).expect("copy pristine");
    let f = std::fs::OpenOptions::new()
        .write(true)
        .open(work.join("MANIFEST"))
        .expect("open MANIFEST for truncation");
    f.set_len(cut as u64).expect("truncate");
    drop(f);
    // reopen; then go on using the manifest: one more edit, close, reopen (the torn tail must not
    // leak into, or damage, what is recorded afterwards)
    let r = vcore::catch(|| match Manifest::open(options(ratio, false), &work) {
        Ok(mut m) => {
            let obs = observe(&m);
            let mut e = Edit::default();
            let follow: Result<Model, String> = (|| {
                e.add("after-cut").map_err(|e| format!("building the follow-up edit: {e}"))?;
                m.apply(e).map_err(|e| format!("the follow-up edit failed: {e}"))?;
                let live = observe(&m);
                drop(m);
                let m2 = Manifest::open(options(ratio, false), &work).map_err(|e| format!("reopening after the follow-up edit failed: {e}"))?;
                let again = observe(&m2);
                if again != live {
                    return Err(format!("after the follow-up edit the manifest held {} but reopening gives {}", live.show(), again.show()));
                }
                Ok(again)
            })();
            Ok((obs, follow))
        }
        Err(e) => Err(short(mani::error_code(&e), &e)),
    });
    match r {
        Err(p) => CutOutcome::Panic(p),
        Ok(Err((code, _text))) => CutOutcome::Error(code),
        Ok(Ok((obs, follow))) => {
            // the longest matching prefix (states may repeat)
            match p.prefix_states.iter().rposition(|s| *s == obs) {
                Some(i) => match follow {
                    Ok(_) => CutOutcome::Prefix(i),
                    Err(e) => CutOutcome::FollowUp(i, e),
                },
                None => CutOutcome::NotAPrefix(obs.show()),
            }
        }
    }
}

///////////////////////////////////////// structural features /////////////////////////////////////

/// What is unusual about a string (nothing for plain printable ASCII).
pub fn string_features(s: &str) -> Vec<&'static str> {
    let mut f = vec![];
    if s.is_empty() {
        f.push("empty-string");
    }
    if !s.is_ascii() {
        f.push("non-ascii");
    }
    if s.ends_with('\r') {
        f.push("trailing-cr");
    } else if s.contains('\r') {
        f.push("inner-cr");
    }
    if s == "--------" {
        f.push("separator-string");
    } else if s.starts_with('+') {
        f.push("leading-plus");
    } else if s.starts_with('-') {
        f.push("leading-minus");
    }
    if s.chars().any(|c| (c as u32) < 0x20 && c != '\r') || s.contains('\u{7f}') {
        f.push("control-char");
    }
    if s.len() >= 200 {
        f.push("long-string");
    }
    if s.contains(' ') {
        f.push("space");
    }
    f
}

pub fn key_features(c: char) -> Vec<&'static str> {
    let mut f = vec![];
    if !c.is_ascii() {
        f.push("info-key-non-ascii");
    } else if c == '+' {
        f.push("info-key-plus");
    } else if c == '-' {
        f.push("info-key-minus");
    } else if c == '\r' {
        f.push("info-key-cr");
    } else if (c as u32) < 0x20 || c == '\u{7f}' {
        f.push("info-key-control-char");
    } else if !c.is_ascii_alphanumeric() {
        f.push("info-key-punct");
    }
    f
}

/// Features and operation kinds of a (minimised) history, for the violation signature.
pub fn history_features(ops: &[Op]) -> (Vec<&'static str>, Vec<&'static str>) {
    let mut feats = BTreeSet::new();
    let mut kinds = BTreeSet::new();
    for op in ops {
        kinds.insert(op.kind());
        match op {
            Op::Add(s) | Op::Rm(s) => feats.extend(string_features(s)),
            Op::Info(c, s) => {
                feats.extend(key_features(*c));
                feats.extend(string_features(s));
            }
            Op::AddRm(a, r) => {
                feats.extend(string_features(a));
                feats.extend(string_features(r));
                if a == r {
                    feats.insert("same-string-added-and-removed");
                }
            }
            _ => {}
        }
    }
    (feats.into_iter().collect(), kinds.into_iter().collect())
}

/////////////////////////////////////////// self-check ////////////////////////////////////////////

/// Machinery self-check of the fragment-chain oracle: it accepts a genuine two-fragment directory
/// and rejects the same directory after the first line of the live file's roll-up was removed.
pub fn chain_selfcheck() {
    let scratch = Scratch::new("selfcheck");
    let dir = scratch.sub("m");
    let mut m = Manifest::open(options(1000, false), &dir).expect("selfcheck open");
    let mut model = Model::default();
    for (add, info) in [(Some("x"), None), (None, Some(('I', "v"))), (Some("y"), None)] {
        let mut e = Edit::default();
        if let Some(s) = add {
            e.add(s).unwrap();
            model.strs.insert(s.to_string());
        }
        if let Some((c, s)) = info {
            e.info(c, s).unwrap();
            model.info.insert(c, s.to_string());
        }
        m.apply(e).expect("selfcheck apply");
        if add == Some("x") {
            m.rollover().expect("selfcheck rollover");
        }
    }
    drop(m);
    let (f, n) = check_chain(&dir, &model);
    assert!(f.is_none() && n == 2, "chain oracle rejects a genuine directory: {f:?}");
    let live = dir.join("MANIFEST");
    let text = std::fs::read_to_string(&live).expect("read MANIFEST");
    let cut = text.find('\n').expect("a line") + 1;
    std::fs::write(&live, &text[cut..]).expect("tamper");
    let (f, _) = check_chain(&dir, &model);
    let f = f.expect("chain oracle accepts a tampered directory");
    assert!(
        f.oracle == "fragment-chain-broken",
        "chain oracle reports {} on a directory whose roll-up lost a line",
        f.oracle
    );
}
