//! C18 (sequential halves): every operation sequence on the real
//! `sync42::lru::LeastRecentlyUsedCache` against a set-valued LRU reference, and every
//! link / unlink / drop / notify_head sequence over <= 4 guards on the real
//! `sync42::wait_list::WaitList`, with every non-blocking question asked after every step.
//!
//!   seq_lru --tier quick --out report.json
//!   seq_lru --lru-depth 6 --wl-depth 9 --capacities 0,3,4
//!   seq_lru --replay replays/C18/....json

use manimc::lru_ref::{self, LruOp};
use manimc::wl_ref::{self, WlOp};
use vcore::{Args, Report, Value, Violation, json, stable_hash};

const PROP: &str = "C18";

//////////////////////////////////////////////// LRU ///////////////////////////////////////////////

struct LruCtx<'a> {
    alphabet: &'a [LruOp],
    depth: usize,
    cap: usize,
    strict_lookup: bool,
}

fn lru_minimise(ctx: &LruCtx, ops: &[LruOp], sig: &str) -> Vec<LruOp> {
    let mut ops = ops.to_vec();
    let mut i = 0;
    while i < ops.len() {
        let mut cand = ops.clone();
        cand.remove(i);
        let out = lru_ref::run(ctx.cap, &cand, ctx.strict_lookup);
        if out.finding.as_ref().map(|f| f.signature.as_str()) == Some(sig) {
            ops = cand;
        } else {
            i += 1;
        }
    }
    ops
}

fn lru_evaluate(ctx: &LruCtx, ops: &[LruOp], rep: &mut Report) {
    let out = lru_ref::run(ctx.cap, ops, ctx.strict_lookup);
    rep.evaluations += 1;
    rep.transitions += out.calls;
    rep.traces_validated += 1;
    rep.count("lru_sequences", 1);
    let st = stable_hash(&("lru", ctx.cap, &out.drained));
    rep.states.insert(st);
    if out.evicted || out.over_capacity {
        rep.nontrivial.insert(st);
    }
    rep.outcomes.insert(stable_hash(&("lru", &out.last, &out.drained, out.finding.as_ref().map(|f| f.signature.as_str()))));
    if out.evicted {
        rep.count("lru_sequences_with_eviction", 1);
    }
    if out.over_capacity {
        rep.count("lru_sequences_over_capacity_by_no_evict", 1);
    }
    if out.ambiguous {
        rep.count("lru_sequences_where_reference_kept_two_states", 1);
    }
    if rep.evaluations % 50_021 == 11 && out.evicted {
        rep.sample(json!({
            "subject": "lru",
            "capacity": ctx.cap,
            "ops": ops.iter().map(|o| o.show()).collect::<Vec<_>>(),
            "last_result": format!("{:?}", out.last),
            "drained_least_recent_first": format!("{:?}", out.drained),
        }));
    }
    if let Some(f) = out.finding {
        // replay before report
        let again = lru_ref::run(ctx.cap, ops, ctx.strict_lookup);
        if again.finding.as_ref() != Some(&f) {
            rep.count("non_reproducible_findings", 1);
            return;
        }
        let (minimal, detail) = if rep.violation_sigs.get(&f.signature).copied().unwrap_or(0) < rep.max_violations_per_sig as u64 {
            let m = lru_minimise(ctx, ops, &f.signature);
            let d = lru_ref::run(ctx.cap, &m, ctx.strict_lookup).finding.map(|f| f.detail).unwrap_or_default();
            (m, d)
        } else {
            (ops.to_vec(), f.detail.clone())
        };
        rep.violation(Violation {
            property: PROP.into(),
            signature: f.signature.clone(),
            detail: format!("sequence {:?}: {detail}", minimal.iter().map(|o| o.show()).collect::<Vec<_>>()),
            case: json!({
                "kind": "lru",
                "capacity": ctx.cap,
                "strict_lookup": ctx.strict_lookup,
                "ops": minimal.iter().map(|o| o.to_json()).collect::<Vec<_>>(),
            }),
        });
    }
}

fn lru_explore(ctx: &LruCtx, ops: &mut Vec<LruOp>, rep: &mut Report) {
    lru_evaluate(ctx, ops, rep);
    if ops.len() >= ctx.depth {
        return;
    }
    for o in ctx.alphabet.iter() {
        ops.push(*o);
        lru_explore(ctx, ops, rep);
        ops.pop();
    }
}

///////////////////////////////////////////// wait list ////////////////////////////////////////////

struct WlCtx {
    depth: usize,
    max_guards: usize,
    pre: u64,
    slots: usize,
}

fn wl_evaluate(ctx: &WlCtx, ops: &[WlOp], rep: &mut Report) {
    let out = wl_ref::run(ctx.pre, ops);
    rep.evaluations += 1;
    rep.transitions += out.calls;
    rep.traces_validated += 1;
    rep.count("waitlist_sequences", 1);
    let st = stable_hash(&("wl", &out.last_shape));
    rep.states.insert(st);
    if out.handoffs > 0 {
        rep.nontrivial.insert(st);
        rep.count("waitlist_sequences_with_head_handoff", 1);
    }
    if out.holes_seen {
        rep.count("waitlist_sequences_iterator_yields_unlinked_hole", 1);
    }
    rep.outcomes.insert(stable_hash(&("wl", &out.last_shape, out.finding.as_ref().map(|f| f.signature.as_str()))));
    if rep.evaluations % 10_007 == 5 && out.handoffs > 0 {
        rep.sample(json!({
            "subject": "waitlist",
            "slots": ctx.slots,
            "first_index": ctx.pre,
            "ops": ops.iter().map(|o| o.show()).collect::<Vec<_>>(),
            "last_probe(guard,is_head,count,get_waiter,iter)": format!("{:?}", out.last_shape),
        }));
    }
    if let Some(f) = out.finding {
        let again = wl_ref::run(ctx.pre, ops);
        if again.finding.as_ref().map(|g| &g.signature) != Some(&f.signature) {
            rep.count("non_reproducible_findings", 1);
            return;
        }
        rep.violation(Violation {
            property: PROP.into(),
            signature: f.signature.clone(),
            detail: format!(
                "{} slots, first index {}, sequence {:?}: {}",
                ctx.slots,
                ctx.pre,
                ops.iter().map(|o| o.show()).collect::<Vec<_>>(),
                f.detail
            ),
            case: json!({
                "kind": "waitlist",
                "slots": ctx.slots,
                "pre": ctx.pre,
                "ops": ops.iter().map(|o| o.to_json()).collect::<Vec<_>>(),
            }),
        });
    }
}

fn wl_explore(ctx: &WlCtx, ops: &mut Vec<WlOp>, rep: &mut Report) {
    wl_evaluate(ctx, ops, rep);
    if ops.len() >= ctx.depth {
        return;
    }
    for o in wl_ref::enabled(ops, ctx.max_guards) {
        ops.push(o);
        wl_explore(ctx, ops, rep);
        ops.pop();
    }
}

fn set_slots(slots: usize) -> usize {
    #[cfg(rescrv_blue_verif)]
    {
        sync42::verif::set_wait_list_slots(slots);
        if slots == 0 { 64 } else { slots.min(64) }
    }
    #[cfg(not(rescrv_blue_verif))]
    {
        let _ = slots;
        sync42::MAX_CONCURRENCY
    }
}

/////////////////////////////////////////////// main //////////////////////////////////////////////

enum Work {
    Lru { cap: usize, prefix: Vec<LruOp>, subtree: bool },
    Wl { pre: u64, prefix: Vec<WlOp>, subtree: bool },
}

fn main() {
    let args = Args::parse();
    vcore::quiet_panics();
    if let Some(rf) = args.replay_case() {
        replay(&rf);
    }
    let thorough = args.tier_thorough();
    let lru_depth = args.usize("lru-depth", if thorough { 6 } else { 5 });
    let wl_depth = args.usize("wl-depth", if thorough { 10 } else { 8 });
    let max_guards = args.usize("guards", 4);
    let strict_lookup = args.get("lookup-refresh").unwrap_or("required") == "required";
    let caps: Vec<usize> = args
        .get("capacities")
        .unwrap_or("0,3,4")
        .split(',')
        .map(|s| s.parse().expect("capacity"))
        .collect();
    let keys = [1u8, 2, 3];
    let sizes = [1usize, 3];
    let alphabet = lru_ref::alphabet(&keys, &sizes);
    let threads = args.threads();
    let mk = || {
        let mut r = Report::new("seq_lru", PROP);
        r.max_samples = 3;
        r
    };

    // LRU: partition by capacity and the first two operations
    let mut work = vec![];
    for &cap in caps.iter() {
        if lru_depth < 2 {
            work.push(Work::Lru { cap, prefix: vec![], subtree: true });
            continue;
        }
        work.push(Work::Lru { cap, prefix: vec![], subtree: false });
        for a in alphabet.iter() {
            work.push(Work::Lru { cap, prefix: vec![*a], subtree: false });
            for b in alphabet.iter() {
                work.push(Work::Lru { cap, prefix: vec![*a, *b], subtree: true });
            }
        }
    }
    let alpha_ref = &alphabet;
    let mut total = vcore::parallel(work, threads, mk, |w, rep| {
        if let Work::Lru { cap, prefix, subtree } = w {
            let ctx = LruCtx { alphabet: alpha_ref, depth: lru_depth, cap: *cap, strict_lookup };
            let mut ops = prefix.clone();
            if !*subtree {
                // shorter sequences are their own items
                lru_evaluate(&ctx, &ops, rep);
            } else {
                lru_explore(&ctx, &mut ops, rep);
            }
        }
    });

    // wait list: the slot count is a process-wide hook, so one phase per slot count
    let mut wl_phases = vec![];
    let slot_plan: Vec<usize> = if cfg!(rescrv_blue_verif) { vec![0, 4] } else { vec![0] };
    for want in slot_plan {
        let slots = set_slots(want);
        // first index 0, and first indices chosen so that the four guards straddle the wrap-around
        let pres: Vec<u64> = vec![0, slots as u64 - 2, 2 * slots as u64 - 1];
        let mut work = vec![];
        for &pre in pres.iter() {
            if wl_depth < 3 {
                work.push(Work::Wl { pre, prefix: vec![], subtree: true });
                continue;
            }
            work.push(Work::Wl { pre, prefix: vec![], subtree: false });
            for a in wl_ref::enabled(&[], max_guards) {
                work.push(Work::Wl { pre, prefix: vec![a], subtree: false });
                for b in wl_ref::enabled(&[a], max_guards) {
                    work.push(Work::Wl { pre, prefix: vec![a, b], subtree: false });
                    for c in wl_ref::enabled(&[a, b], max_guards) {
                        work.push(Work::Wl { pre, prefix: vec![a, b, c], subtree: true });
                    }
                }
            }
        }
        let part = vcore::parallel(work, threads, mk, |w, rep| {
            if let Work::Wl { pre, prefix, subtree } = w {
                let ctx = WlCtx { depth: wl_depth, max_guards, pre: *pre, slots };
                let mut ops = prefix.clone();
                if !*subtree {
                    wl_evaluate(&ctx, &ops, rep);
                } else {
                    wl_explore(&ctx, &mut ops, rep);
                }
            }
        });
        total.max_samples = 6;
        total.merge(part);
        wl_phases.push(json!({"slots": slots, "first_indices": pres}));
    }
    set_slots(0);

    total.bound = json!({
        "lru": {
            "max_depth": lru_depth,
            "alphabet": alphabet.iter().map(|o| o.show()).collect::<Vec<_>>(),
            "keys": keys, "sizes": sizes, "capacities": caps,
            "sequences_per_capacity": (0..=lru_depth).map(|k| (alphabet.len() as u64).pow(k as u32)).sum::<u64>(),
            "lookup_must_refresh_recency": strict_lookup,
        },
        "waitlist": {
            "max_depth": wl_depth,
            "max_guards": max_guards,
            "alphabet": "link | unlink(g) | drop(g) | notify_head, enabled operations only; after every step each live guard answers index, is_head, count, load, get_waiter(every index from one before the first to one past the tail), iter -- twice",
            "phases": wl_phases,
        },
    });
    total.rule = "LRU: every sequence of length <= depth over the alphabet, per capacity, each on a fresh real cache; after every call the result and approximate_size() must be admitted by a set of reference LRU states (overwrite may or may not refresh recency), size > capacity only after insert_no_evict; at the end the cache is drained with pop and the order must be least-recently-used first. Wait list: every enabled sequence of length <= depth over <= 4 guards on a fresh real list (per slot count and first index), all non-blocking questions after every step against the reference (one head = the oldest linked guard, count = tail - head, get_waiter = linked indices at or after the asker, iterator covers every later linked guard). distinct states = drained LRU content / wait-list probe shape; non-trivial = an eviction or an over-capacity state occurred / the head position was handed over; outcomes = (last result, final content) / last probe shape.".into();
    total.assumptions = vec![
        "single thread; interleavings are the loom jobs'".into(),
        "a lookup hit counts as a use (definition of least-recently-used); overwriting insert may or may not".into(),
        "iterators may also yield the asking guard and unlinked holes (undocumented, observed, not demanded)".into(),
    ];
    total.finish(&args, "seq_lru");
    eprintln!(
        "seq_lru: {} evaluations, {} subject calls, {} states ({} non-trivial), {} outcomes, {} violation signatures, {:.1} s; counters {:?}",
        total.evaluations,
        total.transitions,
        total.states.len(),
        total.nontrivial.len(),
        total.outcomes.len(),
        total.violation_sigs.len(),
        total.started.elapsed().as_secs_f64(),
        total.counters
    );
    for (s, n) in total.violation_sigs.iter() {
        eprintln!("  {n:>9} x {s}");
    }
}

fn replay(rf: &Value) -> ! {
    let case = &rf["case"];
    let want = rf["signature"].as_str().unwrap_or("");
    let (finding, text): (Option<String>, String) = match case["kind"].as_str().expect("kind") {
        "lru" => {
            let cap = case["capacity"].as_u64().expect("capacity") as usize;
            let strict = case["strict_lookup"].as_bool().unwrap_or(true);
            let ops: Vec<LruOp> = case["ops"].as_array().expect("ops").iter().map(LruOp::from_json).collect();
            println!("replaying on a cache of capacity {cap}: {:?}", ops.iter().map(|o| o.show()).collect::<Vec<_>>());
            let out = lru_ref::run(cap, &ops, strict);
            println!("last result {:?}; drained (least recent first) {:?}", out.last, out.drained);
            match out.finding {
                Some(f) => (Some(f.signature), f.detail),
                None => (None, String::new()),
            }
        }
        "waitlist" => {
            let slots = case["slots"].as_u64().unwrap_or(0) as usize;
            let pre = case["pre"].as_u64().unwrap_or(0);
            let ops: Vec<WlOp> = case["ops"].as_array().expect("ops").iter().map(WlOp::from_json).collect();
            let have = set_slots(if slots == 64 { 0 } else { slots });
            println!("replaying on a wait list of {have} slots, first index {pre}: {:?}", ops.iter().map(|o| o.show()).collect::<Vec<_>>());
            let out = wl_ref::run(pre, &ops);
            println!("last probe {:?}", out.last_shape);
            match out.finding {
                Some(f) => (Some(f.signature), f.detail),
                None => (None, String::new()),
            }
        }
        k => panic!("unknown case kind {k}"),
    };
    match finding {
        Some(sig) => {
            println!("finding {sig}: {text}");
            if sig == want {
                println!("REPRODUCED {want}");
            }
            std::process::exit(1);
        }
        None => {
            println!("no finding: the property holds on this case");
            std::process::exit(0);
        }
    }
}
