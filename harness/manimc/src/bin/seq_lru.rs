//! C18 (sequential halves): every operation sequence on the real
//! `sync42::lru::LeastRecentlyUsedCache` against a set-valued LRU reference, and every
//! link / unlink / drop / notify_head sequence over <= 4 guards on the real
//! `sync42::wait_list::WaitList`, with every non-blocking question asked after every step.
//!
//!   seq_lru --tier quick --out report.json
//!   seq_lru --lru-depth 6 --wl-depth 9 --capacities 0,3,4
//!   seq_lru --replay replays/C18/....json

use std::cell::RefCell;
use std::os::unix::fs::FileExt;
use std::path::{Path, PathBuf};
use std::sync::OnceLock;
use std::sync::atomic::{AtomicUsize, Ordering};

use manimc::lru_ref::{self, LruOp};
use manimc::wire;
use manimc::wl_ref::{self, WlOp};
use vcore::{Args, Report, Value, Violation, json, stable_hash};

const PROP: &str = "C18";

//////////////////////////////////////////////// LRU ///////////////////////////////////////////////

struct LruCtx<'a> {
    alphabet: &'a [LruOp],
    depth: usize,
    cap: usize,
    strict_lookup: bool,
}

fn lru_minimise(ctx: &LruCtx, ops: &[LruOp], sig: &str) -> Vec<LruOp> {
    let mut ops = ops.to_vec();
    let mut i = 0;
    while i < ops.len() {
        let mut cand = ops.clone();
        cand.remove(i);
        let out = lru_ref::run(ctx.cap, &cand, ctx.strict_lookup);
        if out.finding.as_ref().map(|f| f.signature.as_str()) == Some(sig) {
            ops = cand;
        } else {
            i += 1;
        }
    }
    ops
}

fn lru_evaluate(ctx: &LruCtx, ops: &[LruOp], rep: &mut Report) {
    let out = lru_ref::run(ctx.cap, ops, ctx.strict_lookup);
    rep.evaluations += 1;
    rep.transitions += out.calls;
    rep.traces_validated += 1;
    rep.count("lru_sequences", 1);
    let st = stable_hash(&("lru", ctx.cap, &out.drained));
    rep.states.insert(st);
    if out.evicted || out.over_capacity {
        rep.nontrivial.insert(st);
    }
    rep.outcomes.insert(stable_hash(&("lru", &out.last, &out.drained, out.finding.as_ref().map(|f| f.signature.as_str()))));
    if out.evicted {
        rep.count("lru_sequences_with_eviction", 1);
    }
    if out.over_capacity {
        rep.count("lru_sequences_over_capacity_by_no_evict", 1);
    }
    if out.ambiguous {
        rep.count("lru_sequences_where_reference_kept_two_states", 1);
    }
    if rep.evaluations % 50_021 == 11 && out.evicted {
        rep.sample(json!({
            "subject": "lru",
            "capacity": ctx.cap,
            "ops": ops.iter().map(|o| o.show()).collect::<Vec<_>>(),
            "last_result": format!("{:?}", out.last),
            "drained_least_recent_first": format!("{:?}", out.drained),
        }));
    }
    if let Some(f) = out.finding {
        // replay before report
        let again = lru_ref::run(ctx.cap, ops, ctx.strict_lookup);
        if again.finding.as_ref() != Some(&f) {
            rep.count("non_reproducible_findings", 1);
            return;
        }
        let (minimal, detail) = if rep.violation_sigs.get(&f.signature).copied().unwrap_or(0) < rep.max_violations_per_sig as u64 {
            let m = lru_minimise(ctx, ops, &f.signature);
            let d = lru_ref::run(ctx.cap, &m, ctx.strict_lookup).finding.map(|f| f.detail).unwrap_or_default();
            (m, d)
        } else {
            (ops.to_vec(), f.detail.clone())
        };
        rep.violation(Violation {
            property: PROP.into(),
            signature: f.signature.clone(),
            detail: format!("sequence {:?}: {detail}", minimal.iter().map(|o| o.show()).collect::<Vec<_>>()),
            case: json!({
                "kind": "lru",
                "capacity": ctx.cap,
                "strict_lookup": ctx.strict_lookup,
                "ops": minimal.iter().map(|o| o.to_json()).collect::<Vec<_>>(),
            }),
        });
    }
}

fn lru_explore(ctx: &LruCtx, ops: &mut Vec<LruOp>, rep: &mut Report) {
    lru_evaluate(ctx, ops, rep);
    if ops.len() >= ctx.depth {
        return;
    }
    for o in ctx.alphabet.iter() {
        ops.push(*o);
        lru_explore(ctx, ops, rep);
        ops.pop();
    }
}

///////////////////////////////////////////// wait list ////////////////////////////////////////////

struct WlCtx {
    depth: usize,
    max_guards: usize,
    pre: u64,
    slots: usize,
}

static AHEAD_DIR: OnceLock<PathBuf> = OnceLock::new();
static AHEAD_N: AtomicUsize = AtomicUsize::new(0);
thread_local! {
    static AHEAD: RefCell<Option<std::fs::File>> = const { RefCell::new(None) };
}

/// Write the case about to run into this thread's slot (fixed-size record at offset 0), so that
/// the parent can name it if the subject aborts the process.
fn write_ahead(pre: u64, ops: &[WlOp]) {
    let Some(dir) = AHEAD_DIR.get() else { return };
    AHEAD.with(|a| {
        let mut a = a.borrow_mut();
        if a.is_none() {
            let n = AHEAD_N.fetch_add(1, Ordering::Relaxed);
            *a = std::fs::File::create(dir.join(format!("ahead-{n}"))).ok();
        }
        if let Some(f) = a.as_ref() {
            let mut rec = json!({"pre": pre, "ops": ops.iter().map(|o| o.to_json()).collect::<Vec<_>>()}).to_string();
            while rec.len() < 1024 {
                rec.push(' ');
            }
            let _ = f.write_at(rec.as_bytes(), 0);
        }
    });
}

/// Returns true when the sequence has a finding.
fn wl_evaluate(ctx: &WlCtx, ops: &[WlOp], rep: &mut Report) -> bool {
    write_ahead(ctx.pre, ops);
    let out = wl_ref::run(ctx.pre, ops);
    rep.evaluations += 1;
    rep.transitions += out.calls;
    rep.traces_validated += 1;
    rep.count("waitlist_sequences", 1);
    let st = stable_hash(&("wl", &out.last_shape));
    rep.states.insert(st);
    if out.handoffs > 0 {
        rep.nontrivial.insert(st);
        rep.count("waitlist_sequences_with_head_handoff", 1);
    }
    if out.holes_seen {
        rep.count("waitlist_sequences_iterator_yields_unlinked_hole", 1);
    }
    rep.outcomes.insert(stable_hash(&("wl", &out.last_shape, out.finding.as_ref().map(|f| f.signature.as_str()))));
    if rep.evaluations % 10_007 == 5 && out.handoffs > 0 {
        rep.sample(json!({
            "subject": "waitlist",
            "slots": ctx.slots,
            "first_index": ctx.pre,
            "ops": ops.iter().map(|o| o.show()).collect::<Vec<_>>(),
            "last_probe(guard,is_head,count,get_waiter,iter)": format!("{:?}", out.last_shape),
        }));
    }
    if let Some(f) = out.finding {
        let again = wl_ref::run(ctx.pre, ops);
        if again.finding.as_ref().map(|g| &g.signature) != Some(&f.signature) {
            rep.count("non_reproducible_findings", 1);
            return false;
        }
        // notify_head calls that do not matter are dropped from the recorded case
        let mut ops: Vec<WlOp> = ops.to_vec();
        let mut f = f;
        let mut i = 0;
        while i < ops.len() {
            if ops[i] == WlOp::NotifyHead {
                let mut cand = ops.clone();
                cand.remove(i);
                if let Some(g) = wl_ref::run(ctx.pre, &cand).finding {
                    if g.signature == f.signature {
                        ops = cand;
                        f = g;
                        continue;
                    }
                }
            }
            i += 1;
        }
        let ops = &ops[..];
        rep.violation(Violation {
            property: PROP.into(),
            signature: f.signature.clone(),
            detail: format!(
                "{} slots, first index {}, sequence {:?}: {}",
                ctx.slots,
                ctx.pre,
                ops.iter().map(|o| o.show()).collect::<Vec<_>>(),
                f.detail
            ),
            case: json!({
                "kind": "waitlist",
                "slots": ctx.slots,
                "pre": ctx.pre,
                "ops": ops.iter().map(|o| o.to_json()).collect::<Vec<_>>(),
            }),
        });
        return true;
    }
    false
}

fn wl_explore(ctx: &WlCtx, ops: &mut Vec<WlOp>, rep: &mut Report) {
    let bad = wl_evaluate(ctx, ops, rep);
    if ops.len() >= ctx.depth {
        return;
    }
    if bad {
        // a list that already misbehaves is not driven further
        rep.count("waitlist_subtrees_not_extended_below_a_finding", 1);
        return;
    }
    for o in wl_ref::enabled(ops, ctx.max_guards) {
        ops.push(o);
        wl_explore(ctx, ops, rep);
        ops.pop();
    }
}

fn set_slots(slots: usize) -> usize {
    #[cfg(rescrv_blue_verif)]
    {
        sync42::verif::set_wait_list_slots(slots);
        if slots == 0 { 64 } else { slots.min(64) }
    }
    #[cfg(not(rescrv_blue_verif))]
    {
        let _ = slots;
        sync42::MAX_CONCURRENCY
    }
}

/// First index 0, and first indices chosen so that the four guards straddle the wrap-around.
fn pres_for(slots: usize) -> Vec<u64> {
    vec![0, slots as u64 - 2, 2 * slots as u64 - 1]
}

fn mk_report() -> Report {
    let mut r = Report::new("seq_lru", PROP);
    r.max_samples = 3;
    r
}

/// All enabled sequences for every first index, on `threads` threads, in this process.
fn wl_phase(slots: usize, pres: &[u64], wl_depth: usize, max_guards: usize, threads: usize) -> Report {
    let mut work = vec![];
    for &pre in pres.iter() {
        if wl_depth < 3 {
            work.push(Work::Wl { pre, prefix: vec![], subtree: true });
            continue;
        }
        work.push(Work::Wl { pre, prefix: vec![], subtree: false });
        for a in wl_ref::enabled(&[], max_guards) {
            work.push(Work::Wl { pre, prefix: vec![a], subtree: false });
            for b in wl_ref::enabled(&[a], max_guards) {
                work.push(Work::Wl { pre, prefix: vec![a, b], subtree: false });
                for c in wl_ref::enabled(&[a, b], max_guards) {
                    work.push(Work::Wl { pre, prefix: vec![a, b, c], subtree: true });
                }
            }
        }
    }
    vcore::parallel(work, threads, mk_report, |w, rep| {
        if let Work::Wl { pre, prefix, subtree } = w {
            let ctx = WlCtx { depth: wl_depth, max_guards, pre: *pre, slots };
            let mut ops = prefix.clone();
            if !*subtree {
                wl_evaluate(&ctx, &ops, rep);
            } else {
                wl_explore(&ctx, &mut ops, rep);
            }
        }
    })
}

/// Run one sequence in a child; Some(stderr) if the child was killed by a signal (abort).
fn wl_one_in_child(want_slots: usize, pre: u64, ops: &[WlOp]) -> Option<String> {
    let exe = std::env::current_exe().expect("current_exe");
    let out = std::process::Command::new(exe)
        .arg("--child-wl-one")
        .arg("--slots")
        .arg(want_slots.to_string())
        .arg("--pre")
        .arg(pre.to_string())
        .arg("--ops")
        .arg(Value::Array(ops.iter().map(|o| o.to_json()).collect()).to_string())
        .output()
        .expect("spawn child");
    if out.status.code().is_none() {
        Some(String::from_utf8_lossy(&out.stderr).to_string())
    } else {
        None
    }
}

fn abort_violation(want_slots: usize, slots: usize, pre: u64, ops: &[WlOp], stderr: &str) -> Violation {
    let last = ops.last().map(|o| o.show()).unwrap_or_default();
    let kind = last.split('(').next().unwrap_or("").to_string();
    let msg: Vec<&str> = stderr.lines().filter(|l| !l.trim().is_empty()).take(6).collect();
    Violation {
        property: PROP.into(),
        signature: format!("c18:waitlist:process-abort:after-{kind}"),
        detail: format!(
            "{slots} slots, first index {pre}, sequence {:?}: the process was aborted (a panic while unwinding from a panic); stderr: {}",
            ops.iter().map(|o| o.show()).collect::<Vec<_>>(),
            msg.join(" / ")
        ),
        case: json!({
            "kind": "waitlist-abort",
            "slots": want_slots,
            "pre": pre,
            "ops": ops.iter().map(|o| o.to_json()).collect::<Vec<_>>(),
        }),
    }
}

fn wl_phase_in_child(want_slots: usize, slots: usize, pres: &[u64], wl_depth: usize, max_guards: usize, threads: usize) -> Report {
    let scratch = vcore::Scratch::new("wl");
    let out = scratch.sub("wire.json");
    let exe = std::env::current_exe().expect("current_exe");
    let st = std::process::Command::new(exe)
        .arg("--child-wl")
        .arg("--slots")
        .arg(want_slots.to_string())
        .arg("--wl-depth")
        .arg(wl_depth.to_string())
        .arg("--guards")
        .arg(max_guards.to_string())
        .arg("--threads")
        .arg(threads.to_string())
        .arg("--ahead-dir")
        .arg(&scratch.path)
        .arg("--out")
        .arg(&out)
        .stderr(std::process::Stdio::null())
        .status()
        .expect("spawn child");
    if st.success() {
        let v: Value = serde_json::from_str(&std::fs::read_to_string(&out).expect("child report")).expect("child report json");
        return wire::from_wire("seq_lru", PROP, &v);
    }
    // the child died: find the sequence that kills it among the ones that were running
    let mut rep = mk_report();
    rep.cap(&format!("the wait-list phase with {slots} slots aborted the child process ({st}); its exploration is incomplete"));
    let mut found = false;
    let _ = pres;
    for e in std::fs::read_dir(&scratch.path).expect("ahead dir").flatten() {
        if !e.file_name().to_string_lossy().starts_with("ahead-") {
            continue;
        }
        let Ok(text) = std::fs::read_to_string(e.path()) else { continue };
        let Ok(v) = serde_json::from_str::<Value>(text.trim()) else { continue };
        let pre = v["pre"].as_u64().unwrap_or(0);
        let ops: Vec<WlOp> = v["ops"].as_array().map(|a| a.iter().map(WlOp::from_json).collect()).unwrap_or_default();
        // shortest aborting prefix
        for n in 1..=ops.len() {
            rep.evaluations += 1;
            if let Some(stderr) = wl_one_in_child(want_slots, pre, &ops[..n]) {
                // replay before report
                if wl_one_in_child(want_slots, pre, &ops[..n]).is_some() {
                    rep.violation(abort_violation(want_slots, slots, pre, &ops[..n], &stderr));
                    found = true;
                }
                break;
            }
        }
    }
    if !found {
        eprintln!("seq_lru: the wait-list child died ({st}) and no running sequence reproduces it: machinery error");
        std::process::exit(2);
    }
    rep
}

fn child_wl(args: &Args) -> ! {
    vcore::quiet_panics();
    let want = args.usize("slots", 0);
    let slots = set_slots(want);
    let _ = AHEAD_DIR.set(PathBuf::from(args.get("ahead-dir").expect("--ahead-dir")));
    let rep = wl_phase(slots, &pres_for(slots), args.usize("wl-depth", 8), args.usize("guards", 4), args.threads());
    std::fs::write(Path::new(args.get("out").expect("--out")), wire::to_wire(&rep).to_string()).expect("write wire report");
    std::process::exit(0);
}

fn child_wl_one(args: &Args) -> ! {
    set_slots(args.usize("slots", 0));
    let ops: Vec<WlOp> = serde_json::from_str::<Value>(args.get("ops").expect("--ops"))
        .expect("ops json")
        .as_array()
        .expect("ops array")
        .iter()
        .map(WlOp::from_json)
        .collect();
    let out = wl_ref::run(args.u64("pre", 0), &ops);
    match out.finding {
        Some(f) => println!("finding {}: {}", f.signature, f.detail),
        None => println!("no finding"),
    }
    std::process::exit(0);
}

/////////////////////////////////////////////// main //////////////////////////////////////////////

enum Work {
    Lru { cap: usize, prefix: Vec<LruOp>, subtree: bool },
    Wl { pre: u64, prefix: Vec<WlOp>, subtree: bool },
}

fn main() {
    let args = Args::parse();
    if args.flag("child-wl-one") {
        child_wl_one(&args);
    }
    if args.flag("child-wl") {
        child_wl(&args);
    }
    vcore::quiet_panics();
    if let Some(rf) = args.replay_case() {
        replay(&rf);
    }
    let thorough = args.tier_thorough();
    let lru_depth = args.usize("lru-depth", if thorough { 6 } else { 5 });
    let wl_depth = args.usize("wl-depth", if thorough { 10 } else { 8 });
    let max_guards = args.usize("guards", 4);
    let strict_lookup = args.get("lookup-refresh").unwrap_or("required") == "required";
    let caps: Vec<usize> = args
        .get("capacities")
        .unwrap_or("0,3,4")
        .split(',')
        .map(|s| s.parse().expect("capacity"))
        .collect();
    let keys = [1u8, 2, 3];
    let sizes = [1usize, 3];
    let alphabet = lru_ref::alphabet(&keys, &sizes);
    let threads = args.threads();
    let mk = mk_report;

    // LRU: partition by capacity and the first two operations
    let mut work = vec![];
    for &cap in caps.iter() {
        if lru_depth < 2 {
            work.push(Work::Lru { cap, prefix: vec![], subtree: true });
            continue;
        }
        work.push(Work::Lru { cap, prefix: vec![], subtree: false });
        for a in alphabet.iter() {
            work.push(Work::Lru { cap, prefix: vec![*a], subtree: false });
            for b in alphabet.iter() {
                work.push(Work::Lru { cap, prefix: vec![*a, *b], subtree: true });
            }
        }
    }
    let alpha_ref = &alphabet;
    let mut total = vcore::parallel(work, threads, mk, |w, rep| {
        if let Work::Lru { cap, prefix, subtree } = w {
            let ctx = LruCtx { alphabet: alpha_ref, depth: lru_depth, cap: *cap, strict_lookup };
            let mut ops = prefix.clone();
            if !*subtree {
                // shorter sequences are their own items
                lru_evaluate(&ctx, &ops, rep);
            } else {
                lru_explore(&ctx, &mut ops, rep);
            }
        }
    });

    // wait list: the slot count is a process-wide hook, so one phase per slot count; each phase runs
    // in a child process because a broken wait list can abort the process (its guards' Drop
    // panics again while unwinding once the list's mutex is poisoned)
    let mut wl_phases = vec![];
    let slot_plan: Vec<usize> = if cfg!(rescrv_blue_verif) { vec![0, 4] } else { vec![0] };
    total.max_samples = 6;
    for want in slot_plan {
        let slots = set_slots(want);
        let pres = pres_for(slots);
        let part = if args.flag("wl-in-process") {
            wl_phase(slots, &pres, wl_depth, max_guards, threads)
        } else {
            wl_phase_in_child(want, slots, &pres, wl_depth, max_guards, threads)
        };
        total.merge(part);
        wl_phases.push(json!({"slots": slots, "first_indices": pres}));
    }
    set_slots(0);

    total.bound = json!({
        "lru": {
            "max_depth": lru_depth,
            "alphabet": alphabet.iter().map(|o| o.show()).collect::<Vec<_>>(),
            "keys": keys, "sizes": sizes, "capacities": caps,
            "sequences_per_capacity": (0..=lru_depth).map(|k| (alphabet.len() as u64).pow(k as u32)).sum::<u64>(),
            "lookup_must_refresh_recency": strict_lookup,
        },
        "waitlist": {
            "max_depth": wl_depth,
            "max_guards": max_guards,
            "alphabet": "link | unlink(g) | drop(g) | notify_head, enabled operations only; after every step each live guard answers index, is_head, count, load, get_waiter(every index from one before the first to one past the tail), iter -- twice",
            "phases": wl_phases,
        },
    });
    total.rule = "LRU: every sequence of length <= depth over the alphabet, per capacity, each on a fresh real cache; after every call the result and approximate_size() must be admitted by a set of reference LRU states (overwrite may or may not refresh recency), size > capacity only after insert_no_evict; at the end the cache is drained with pop and the order must be least-recently-used first. Wait list: every enabled sequence of length <= depth over <= 4 guards on a fresh real list (per slot count and first index), all non-blocking questions after every step against the reference (one head = the oldest linked guard, count = tail - head, get_waiter = linked indices at or after the asker, iterator covers every later linked guard). distinct states = drained LRU content / wait-list probe shape; non-trivial = an eviction or an over-capacity state occurred / the head position was handed over; outcomes = (last result, final content) / last probe shape.".into();
    total.assumptions = vec![
        "single thread; interleavings are the loom jobs'".into(),
        "a lookup hit counts as a use (definition of least-recently-used); overwriting insert may or may not".into(),
        "iterators may also yield the asking guard and unlinked holes (undocumented, observed, not demanded)".into(),
    ];
    total.finish(&args, "seq_lru");
    eprintln!(
        "seq_lru: {} evaluations, {} subject calls, {} states ({} non-trivial), {} outcomes, {} violation signatures, {:.1} s; counters {:?}",
        total.evaluations,
        total.transitions,
        total.states.len(),
        total.nontrivial.len(),
        total.outcomes.len(),
        total.violation_sigs.len(),
        total.started.elapsed().as_secs_f64(),
        total.counters
    );
    for (s, n) in total.violation_sigs.iter() {
        eprintln!("  {n:>9} x {s}");
    }
}

fn replay(rf: &Value) -> ! {
    let case = &rf["case"];
    let want = rf["signature"].as_str().unwrap_or("");
    let (finding, text): (Option<String>, String) = match case["kind"].as_str().expect("kind") {
        "lru" => {
            let cap = case["capacity"].as_u64().expect("capacity") as usize;
            let strict = case["strict_lookup"].as_bool().unwrap_or(true);
            let ops: Vec<LruOp> = case["ops"].as_array().expect("ops").iter().map(LruOp::from_json).collect();
            println!("replaying on a cache of capacity {cap}: {:?}", ops.iter().map(|o| o.show()).collect::<Vec<_>>());
            let out = lru_ref::run(cap, &ops, strict);
            println!("last result {:?}; drained (least recent first) {:?}", out.last, out.drained);
            match out.finding {
                Some(f) => (Some(f.signature), f.detail),
                None => (None, String::new()),
            }
        }
        "waitlist" => {
            let slots = case["slots"].as_u64().unwrap_or(0) as usize;
            let pre = case["pre"].as_u64().unwrap_or(0);
            let ops: Vec<WlOp> = case["ops"].as_array().expect("ops").iter().map(WlOp::from_json).collect();
            let have = set_slots(if slots == 64 { 0 } else { slots });
            println!("replaying on a wait list of {have} slots, first index {pre}: {:?}", ops.iter().map(|o| o.show()).collect::<Vec<_>>());
            let out = wl_ref::run(pre, &ops);
            println!("last probe {:?}", out.last_shape);
            match out.finding {
                Some(f) => (Some(f.signature), f.detail),
                None => (None, String::new()),
            }
        }
        "waitlist-abort" => {
            let slots = case["slots"].as_u64().unwrap_or(0) as usize;
            let pre = case["pre"].as_u64().unwrap_or(0);
            let ops: Vec<WlOp> = case["ops"].as_array().expect("ops").iter().map(WlOp::from_json).collect();
            println!("replaying in a child process (slot hook {slots}, first index {pre}): {:?}; expected: the process survives", ops.iter().map(|o| o.show()).collect::<Vec<_>>());
            match wl_one_in_child(slots, pre, &ops) {
                Some(stderr) => {
                    println!("observed: the child was killed by a signal; stderr: {}", stderr.trim());
                    (Some(want.to_string()), "process abort".to_string())
                }
                None => {
                    println!("observed: the child survived");
                    (None, String::new())
                }
            }
        }
        k => panic!("unknown case kind {k}"),
    };
    match finding {
        Some(sig) => {
            println!("finding {sig}: {text}");
            if sig == want {
                println!("REPRODUCED {want}");
            }
            std::process::exit(1);
        }
        None => {
            println!("no finding: the property holds on this case");
            std::process::exit(0);
        }
    }
}
