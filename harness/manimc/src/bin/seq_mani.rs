//! C13 (sequential half): bounded-exhaustive exploration of edit histories on the real
//! `mani::Manifest`, every truncation length of the newest file, and the lock file.
//!
//!   seq_mani --tier quick --out report.json --replay-dir replays
//!   seq_mani --plan full:2,core:3 --ratios 1,2,1000 --cut-depth 2
//!   seq_mani --replay replays/C13/....json

use std::cell::RefCell;
use std::collections::{BTreeSet, HashMap};

use mani::{Edit, Manifest};
use manimc::mani_sub::{
    Alphabet, CutOutcome, Finding, Op, StepRes, build_pristine, cut_and_reopen, history_features,
    ops_from_json, ops_to_json, options, options_selfcheck, run, show_ops,
};
use manimc::stdout::{restore, say, silence};
use vcore::{Args, Report, Scratch, Value, Violation, json, stable_hash};

const PROP: &str = "C13";

/////////////////////////////////////// sequences: explorer ///////////////////////////////////////

struct Ctx<'a> {
    alpha: &'a Alphabet,
    symbols: &'a [Op],
    depth: usize,
    ratio: u64,
    /// do not extend a history that already has a finding
    prune: bool,
}

thread_local! {
    /// (ratio, history) -> oracle id of its finding; only used while minimising.
    static CACHE: RefCell<HashMap<(u64, Vec<Op>), Option<String>>> = RefCell::new(HashMap::new());
}

fn oracle_of(scratch: &Scratch, ratio: u64, ops: &[Op], rep: &mut Report) -> Option<String> {
    let key = (ratio, ops.to_vec());
    if let Some(v) = CACHE.with(|c| c.borrow().get(&key).cloned()) {
        return v;
    }
    let out = run(scratch, ratio, ops);
    rep.count("minimisation_runs", 1);
    let v = out.finding.map(|f| f.oracle);
    CACHE.with(|c| {
        let mut c = c.borrow_mut();
        if c.len() > 2_000_000 {
            c.clear();
        }
        c.insert(key, v.clone());
    });
    v
}

/// Greedy delta-debugging: drop operations, then replace strings by "x" / "y", info keys by 'I'
/// and the rollover ratio by 1000, as long as the same oracle still fails.
fn minimise(scratch: &Scratch, ratio: u64, ops: &[Op], oracle: &str, rep: &mut Report) -> (u64, Vec<Op>) {
    let mut ops = ops.to_vec();
    let mut i = 0;
    while i < ops.len() {
        let mut cand = ops.clone();
        cand.remove(i);
        if oracle_of(scratch, ratio, &cand, rep).as_deref() == Some(oracle) {
            ops = cand;
        } else {
            i += 1;
        }
    }
    // rename every distinct string (all its occurrences at once) to a plain fresh name, and every
    // info key to a plain letter, as long as the same oracle still fails
    fn strings_of(ops: &[Op]) -> Vec<String> {
        let mut v: Vec<String> = vec![];
        for o in ops {
            let ss: Vec<&String> = match o {
                Op::Add(s) | Op::Rm(s) | Op::Info(_, s) => vec![s],
                Op::AddRm(a, r) => vec![a, r],
                _ => vec![],
            };
            for s in ss {
                if !v.contains(s) {
                    v.push(s.clone());
                }
            }
        }
        v
    }
    fn rename(ops: &[Op], from: &str, to: &str) -> Vec<Op> {
        let f = |s: &String| if s == from { to.to_string() } else { s.clone() };
        ops.iter()
            .map(|o| match o {
                Op::Add(s) => Op::Add(f(s)),
                Op::Rm(s) => Op::Rm(f(s)),
                Op::Info(c, s) => Op::Info(*c, f(s)),
                Op::AddRm(a, r) => Op::AddRm(f(a), f(r)),
                o => o.clone(),
            })
            .collect()
    }
    let plain = ["x", "y", "z", "w", "v", "u"];
    for s in strings_of(&ops) {
        if plain.contains(&s.as_str()) {
            continue;
        }
        let used = strings_of(&ops);
        let Some(fresh) = plain.iter().find(|p| !used.iter().any(|u| u == *p)) else { continue };
        let cand = rename(&ops, &s, fresh);
        if oracle_of(scratch, ratio, &cand, rep).as_deref() == Some(oracle) {
            ops = cand;
        }
    }
    let keys: Vec<char> = ops.iter().filter_map(|o| if let Op::Info(c, _) = o { Some(*c) } else { None }).collect();
    for k in keys {
        if k.is_ascii_alphanumeric() {
            continue;
        }
        let used: Vec<char> = ops.iter().filter_map(|o| if let Op::Info(c, _) = o { Some(*c) } else { None }).collect();
        let Some(fresh) = ['I', 'J', 'K', 'L', 'M', 'N'].into_iter().find(|c| !used.contains(c)) else { continue };
        let cand: Vec<Op> = ops
            .iter()
            .map(|o| match o {
                Op::Info(c, s) if *c == k => Op::Info(fresh, s.clone()),
                o => o.clone(),
            })
            .collect();
        if oracle_of(scratch, ratio, &cand, rep).as_deref() == Some(oracle) {
            ops = cand;
        }
    }
    let mut ratio = ratio;
    if ratio != 1000 && oracle_of(scratch, 1000, &ops, rep).as_deref() == Some(oracle) {
        ratio = 1000;
    }
    (ratio, ops)
}

/// Oracle id + the unusual features of the strings and info keys that survive minimisation.  The
/// operation kinds and the rollover ratio of the minimal history are in the case, not here.
fn signature(oracle: &str, _ratio: u64, ops: &[Op]) -> String {
    let (feats, _kinds) = history_features(ops);
    let mut feats: Vec<&str> = feats
        .into_iter()
        .filter(|f| *f != "space" && *f != "long-string")
        .collect();
    if feats.len() > 1 {
        feats.retain(|f| *f != "same-string-added-and-removed");
    }
    let f = if feats.is_empty() { "plain-strings".to_string() } else { feats.join("+") };
    format!("c13:{oracle}:{f}")
}

fn handle_finding(ctx: &Ctx, ops: &[Op], f: &Finding, scratch: &Scratch, rep: &mut Report) {
    // replay before report: the original history must fail the same way again
    let again = run(scratch, ctx.ratio, ops);
    rep.count("replays_before_report", 1);
    if again.finding.as_ref().map(|g| g.oracle.as_str()) != Some(f.oracle.as_str()) {
        rep.count("non_reproducible_findings", 1);
        return;
    }
    let (ratio, minimal) = minimise(scratch, ctx.ratio, ops, &f.oracle, rep);
    let sig = signature(&f.oracle, ratio, &minimal);
    let seen = rep.violation_sigs.get(&sig).copied().unwrap_or(0);
    let detail = if (seen as usize) < rep.max_violations_per_sig {
        // the recorded case is the minimal one: run it for real, twice
        let a = run(scratch, ratio, &minimal);
        let b = run(scratch, ratio, &minimal);
        match (a.finding, b.finding) {
            (Some(x), Some(y)) if x == y && x.oracle == f.oracle => {
                format!("history {} with rollover ratio {ratio}: {}", show_ops(&minimal), x.detail)
            }
            _ => {
                rep.count("non_reproducible_findings", 1);
                return;
            }
        }
    } else {
        String::new()
    };
    rep.violation(Violation {
        property: PROP.into(),
        signature: sig,
        detail,
        case: json!({"kind": "seq", "ratio": ratio, "ops": ops_to_json(&minimal), "oracle": f.oracle}),
    });
}

/// Returns true when the history has a finding.
fn evaluate(ctx: &Ctx, ops: &[Op], scratch: &Scratch, rep: &mut Report) -> bool {
    let out = run(scratch, ctx.ratio, ops);
    rep.evaluations += 1;
    rep.transitions += out.calls;
    rep.traces_validated += 1;
    let st = stable_hash(&(&out.model, out.backups_before_final, out.fragments_final));
    rep.states.insert(st);
    if out.backups_before_final >= 1 && out.model != Default::default() {
        rep.nontrivial.insert(st);
    }
    rep.outcomes.insert(stable_hash(&(
        out.steps.last(),
        out.finding.as_ref().map(|f| f.oracle.as_str()),
        &out.model,
        out.fragments_final,
    )));
    if out.cut_short {
        rep.count("sequences_cut_short_by_a_finding", 1);
    }
    if out.backups_before_final >= 1 {
        rep.count("sequences_with_rollover", 1);
    }
    for s in out.steps.iter() {
        match s {
            StepRes::EditRejected(_) => rep.count("steps_edit_rejected", 1),
            StepRes::ApplyErr(_) => rep.count("steps_apply_error", 1),
            StepRes::RolloverErr(_) => rep.count("steps_rollover_error", 1),
            StepRes::RolloverOk => rep.count("steps_rollover_ok", 1),
            StepRes::ReopenOk => rep.count("steps_reopen_ok", 1),
            StepRes::ReopenErr(_) => rep.count("steps_reopen_error", 1),
            StepRes::Applied => rep.count("steps_applied", 1),
        }
    }
    let with_finding = out.finding.is_some();
    let have = rep.samples.iter().filter(|s| s["finding"].is_null() != with_finding).count();
    if rep.evaluations % 101 == 7 && have < rep.max_samples / 2 && (with_finding || out.backups_before_final >= 1) {
        rep.sample(json!({
            "alphabet": ctx.alpha.name,
            "ratio": ctx.ratio,
            "ops": show_ops(ops),
            "steps": format!("{:?}", out.steps),
            "finding": out.finding.as_ref().map(|f| f.oracle.clone()),
            "reference_state": out.model.show(),
            "fragments": out.fragments_final,
        }));
    }
    match out.finding.as_ref() {
        Some(f) => {
            rep.count("sequences_with_finding", 1);
            handle_finding(ctx, ops, f, scratch, rep);
            true
        }
        None => {
            rep.count("sequences_all_oracles_pass", 1);
            false
        }
    }
}

fn explore(ctx: &Ctx, ops: &mut Vec<Op>, scratch: &Scratch, rep: &mut Report) {
    let bad = evaluate(ctx, ops, scratch, rep);
    if ops.len() >= ctx.depth {
        return;
    }
    if bad && ctx.prune {
        let n = ctx.symbols.len() as u64;
        let below: u64 = (1..=(ctx.depth - ops.len()) as u32).map(|k| n.pow(k)).sum();
        rep.pruned_noops += below;
        rep.count("subtrees_not_extended_below_a_history_with_a_finding", 1);
        return;
    }
    for s in ctx.symbols.iter() {
        ops.push(s.clone());
        explore(ctx, ops, scratch, rep);
        ops.pop();
    }
}

///////////////////////////////////////// newline rejection ////////////////////////////////////////

fn newline_cases() -> Vec<(&'static str, Op)> {
    vec![
        ("add", Op::Add("a\nb".into())),
        ("add-trailing", Op::Add("a\n".into())),
        ("add-only-newline", Op::Add("\n".into())),
        ("rm", Op::Rm("a\nb".into())),
        ("info-value", Op::Info('I', "a\nb".into())),
        ("info-key", Op::Info('\n', "x".into())),
    ]
}

/// true = rejected with an error (as required)
fn newline_rejected(op: &Op) -> bool {
    let mut e = Edit::default();
    let r = match op {
        Op::Add(s) => e.add(s),
        Op::Rm(s) => e.rm(s),
        Op::Info(c, s) => e.info(*c, s),
        _ => unreachable!(),
    };
    r.is_err()
}

fn check_newlines(rep: &mut Report) {
    for (name, op) in newline_cases() {
        rep.evaluations += 1;
        rep.transitions += 1;
        rep.traces_validated += 1;
        let ok = newline_rejected(&op);
        rep.outcomes.insert(stable_hash(&("newline", ok)));
        rep.count("newline_cases", 1);
        if !ok && !newline_rejected(&op) {
            rep.violation(Violation {
                property: PROP.into(),
                signature: format!("c13:newline-accepted:{name}"),
                detail: format!("Edit accepted {} although it contains a newline; expected an error", op.show()),
                case: json!({"kind": "newline", "name": name}),
            });
        }
    }
}

///////////////////////////////////////////// byte sweep ///////////////////////////////////////////

/// Every non-newline character U+0001..U+00FF plus four characters with the remaining UTF-8 lead
/// bytes, each as a whole string, at the start, in the middle and at the end of a string, as an
/// info value and as an info key: one-edit histories (the final check reopens).
fn byte_sweep_histories() -> Vec<Vec<Op>> {
    let mut chars: Vec<char> = (1u32..=0xff).filter(|c| *c != 0x0a).map(|c| char::from_u32(c).unwrap()).collect();
    chars.extend(['\u{800}', '\u{ffff}', '\u{10000}', '\u{10ffff}']);
    let mut v = vec![];
    for c in chars {
        v.push(vec![Op::Add(c.to_string())]);
        v.push(vec![Op::Add(format!("{c}a"))]);
        v.push(vec![Op::Add(format!("a{c}b"))]);
        v.push(vec![Op::Add(format!("a{c}"))]);
        v.push(vec![Op::Rm(format!("a{c}"))]);
        v.push(vec![Op::Info('I', format!("a{c}"))]);
        v.push(vec![Op::Info(c, "x".into())]);
        v.push(vec![Op::Info(c, "".into())]);
    }
    v
}

//////////////////////////////////////////// truncation ///////////////////////////////////////////

fn curated_histories() -> Vec<(&'static str, u64, Vec<Op>)> {
    let l = manimc::mani_sub::long_string();
    vec![
        (
            "four-edits-one-file",
            1000,
            vec![Op::Add("x".into()), Op::Add("y".into()), Op::Info('I', "v1".into()), Op::Rm("x".into())],
        ),
        (
            "six-edits-hostile-ascii",
            1000,
            vec![
                Op::Add("x".into()),
                Op::Add("a b".into()),
                Op::AddRm("y".into(), "x".into()),
                Op::Info('I', "--------".into()),
                Op::Empty,
                Op::Add("--------".into()),
            ],
        ),
        (
            "ends-right-after-rollover",
            1000,
            vec![Op::Add("x".into()), Op::Add("y".into()), Op::Rm("x".into()), Op::Rollover],
        ),
        (
            "reopen-in-the-middle-ratio-2",
            2,
            vec![
                Op::Add("x".into()),
                Op::Add("y".into()),
                Op::Info('I', "v1".into()),
                Op::Reopen,
                Op::Add(l.clone()),
                Op::Rm("y".into()),
            ],
        ),
        (
            "plus-minus-strings-ratio-1",
            1,
            vec![Op::Add("+x".into()), Op::Add("-x".into()), Op::Rm("+x".into()), Op::Info('I', "-x".into())],
        ),
        (
            "long-string-then-info-overwrite",
            1000,
            vec![Op::Add(l), Op::Info('I', "v1".into()), Op::Info('I', "v2".into()), Op::Add("y".into()), Op::Rollover, Op::Add("x".into())],
        ),
    ]
}

/// Where a cut falls, structurally.
fn cut_position(bytes: &[u8], cut: usize) -> &'static str {
    if cut == bytes.len() {
        return "no-cut";
    }
    if cut == 0 || bytes[cut - 1] == b'\n' {
        return "at-line-boundary";
    }
    let start = bytes[..cut].iter().rposition(|b| *b == b'\n').map(|p| p + 1).unwrap_or(0);
    let end = bytes[start..].iter().position(|b| *b == b'\n').map(|p| p + start).unwrap_or(bytes.len());
    let line = &bytes[start..end];
    if cut == end {
        return if line == b"--------" { "separator-without-newline" } else { "line-without-newline" };
    }
    if line == b"--------" {
        return "inside-separator";
    }
    if cut - start < 8 {
        "inside-crc"
    } else if cut - start == 8 {
        "after-crc"
    } else {
        "inside-payload"
    }
}

/// Every truncation length of the newest file of the manifest produced by `ops`.
fn cut_sweep(name: &str, ratio: u64, ops: &[Op], scratch: &Scratch, rep: &mut Report) {
    let p = match build_pristine(scratch, ratio, ops) {
        Ok(p) => p,
        Err(_) => {
            // the history itself misbehaves: that is a finding of the sequence check
            rep.count("cut_histories_skipped_history_itself_fails", 1);
            return;
        }
    };
    rep.transitions += p.calls;
    rep.count("cut_histories", 1);
    if p.manifest_len == 0 {
        rep.count("cut_histories_without_manifest_file", 1);
        return;
    }
    let bytes = std::fs::read(p.dir.join("MANIFEST")).expect("read MANIFEST");
    let full = p.prefix_states.len() - 1;
    for cut in 0..=bytes.len() {
        let o = cut_and_reopen(scratch, &p, ratio, cut);
        rep.evaluations += 1;
        rep.transitions += 1;
        rep.traces_validated += 1;
        rep.count("cuts", 1);
        let pos = cut_position(&bytes, cut);
        let class = match &o {
            CutOutcome::Prefix(i) if *i == full => "all-edits".to_string(),
            CutOutcome::Prefix(0) => "no-edit".to_string(),
            CutOutcome::Prefix(_) => "proper-prefix".to_string(),
            CutOutcome::Error(c) => format!("error:{c}"),
            CutOutcome::NotAPrefix(_) => "not-a-prefix".to_string(),
            CutOutcome::Panic(_) => "panic".to_string(),
            CutOutcome::FollowUp(..) => "follow-up-edit-broken".to_string(),
        };
        rep.outcomes.insert(stable_hash(&("cut", pos, &class)));
        rep.count(&format!("cut_outcome_{}", class.replace(':', "_")), 1);
        if cut == bytes.len() && o != CutOutcome::Prefix(full) {
            // control: the uncut file must give the full state (else the experiment is broken)
            rep.count("cut_control_failed", 1);
        }
        let bad = match &o {
            CutOutcome::NotAPrefix(s) => Some(("state-is-no-prefix-state", format!("reopen succeeded with {s}"))),
            CutOutcome::Panic(p) => Some(("panic", format!("reopen panicked: {p}"))),
            CutOutcome::FollowUp(i, e) => Some(("follow-up-edit-broken", format!("reopen gave the state after {i} edits, but then: {e}"))),
            _ => None,
        };
        if let Some((what, obs)) = bad {
            // replay before report
            if cut_and_reopen(scratch, &p, ratio, cut) != o {
                rep.count("non_reproducible_findings", 1);
                continue;
            }
            rep.violation(Violation {
                property: PROP.into(),
                signature: format!("c13:truncation:{what}:cut-{pos}"),
                detail: format!(
                    "history {name} {} (ratio {ratio}), MANIFEST of {} bytes cut to {cut}: expected the state after some prefix of the edits ({}) or an explicit error; {obs}",
                    show_ops(ops),
                    bytes.len(),
                    p.prefix_states.iter().map(|s| s.show()).collect::<Vec<_>>().join(" / "),
                ),
                case: json!({"kind": "cut", "ratio": ratio, "ops": ops_to_json(ops), "cut": cut}),
            });
        }
    }
}

fn all_sequences(symbols: &[Op], depth: usize) -> Vec<Vec<Op>> {
    let mut out = vec![vec![]];
    let mut level: Vec<Vec<Op>> = vec![vec![]];
    for _ in 0..depth {
        let mut next = vec![];
        for s in level.iter() {
            for o in symbols {
                let mut t = s.clone();
                t.push(o.clone());
                next.push(t);
            }
        }
        out.extend(next.iter().cloned());
        level = next;
    }
    out
}

/////////////////////////////////////////// lock, 2 processes /////////////////////////////////////

/// Child: try to open the manifest with fail_if_locked; exit 10 = opened, 11 = refused.
fn child_lock_probe(dir: &str) -> ! {
    match Manifest::open(options(1000, true), dir) {
        Ok(_m) => std::process::exit(10),
        Err(_) => std::process::exit(11),
    }
}

fn spawn_probe(dir: &std::path::Path) -> Option<bool> {
    let exe = std::env::current_exe().ok()?;
    let st = std::process::Command::new(exe)
        .arg("--child-lock-probe")
        .arg(dir)
        .stdout(std::process::Stdio::null())
        .stderr(std::process::Stdio::null())
        .status()
        .ok()?;
    match st.code() {
        Some(10) => Some(true),
        Some(11) => Some(false),
        _ => None,
    }
}

/// Returns (scenario outcome: did the other process get in?, expected)
fn lock_scenario(name: &str, scratch: &Scratch) -> Option<(bool, bool)> {
    scratch.clear();
    let dir = scratch.sub("m");
    let mut m = Manifest::open(options(1000, false), &dir).ok()?;
    let mut e = Edit::default();
    e.add("x").ok()?;
    m.apply(e).ok()?;
    match name {
        "held" => {
            let got = spawn_probe(&dir)?;
            drop(m);
            Some((got, false))
        }
        "held-after-refused-second-open-in-process" => {
            // the second open in this process is refused (checked by every sequence run) ...
            if Manifest::open(options(1000, true), &dir).is_ok() {
                return None;
            }
            // ... and must leave the first one's lock in place
            let got = spawn_probe(&dir)?;
            drop(m);
            Some((got, false))
        }
        "released" => {
            drop(m);
            let got = spawn_probe(&dir)?;
            Some((got, true))
        }
        _ => panic!("unknown lock scenario {name}"),
    }
}

/// Child: open the manifest and WAIT for the lock; print the strings it sees (one per line);
/// optionally apply one edit of its own; exit 10 (12 = open failed, 13 = apply failed).
fn child_wait_open(spec: &str) -> ! {
    // spec = "<ratio>:<edit 0|1>:<dir>"
    let mut it = spec.splitn(3, ':');
    let ratio: u64 = it.next().unwrap().parse().unwrap();
    let edit = it.next().unwrap() == "1";
    let dir = it.next().unwrap();
    let mut m = match Manifest::open(options(ratio, false), dir) {
        Ok(m) => m,
        Err(e) => {
            eprintln!("{e}");
            std::process::exit(12)
        }
    };
    let mut out = String::new();
    for s in m.strs() {
        out += s;
        out.push('\n');
    }
    // fd 1 may have been redirected by nobody here: this is the child's own pipe
    use std::io::Write;
    let _ = std::io::stdout().write_all(out.as_bytes());
    let _ = std::io::stdout().flush();
    if edit {
        let mut e = Edit::default();
        if e.add("from-b").is_err() || m.apply(e).is_err() {
            std::process::exit(13);
        }
    }
    drop(m);
    std::process::exit(10)
}

/// Is process `pid` blocked inside fcntl(2) (the F_SETLKW of the lock file)?
fn blocked_in_fcntl(pid: u32) -> bool {
    match std::fs::read_to_string(format!("/proc/{pid}/syscall")) {
        Ok(s) => s.starts_with("72 "),
        Err(_) => false,
    }
}

/// Two openers, one lock.  A opens, applies `before` edits; B starts and blocks on the lock; A
/// applies `during` more edits (every one returns) and closes; B gets the lock.  The lock
/// serialises the two, so (before, during) enumerates every interleaving at edit granularity.
/// B must see every edit A was told had been applied, and so must a later reopen.
/// Returns None when the machinery could not establish the schedule.
fn waiting_opener(before: usize, during: usize, ratio: u64, b_edits: bool, scratch: &Scratch) -> Option<Result<(), (String, String)>> {
    scratch.clear();
    let dir = scratch.sub("m");
    let mut m = Manifest::open(options(ratio, false), &dir).ok()?;
    let mut want: BTreeSet<String> = BTreeSet::new();
    let mut n = 0;
    let mut apply_one = |m: &mut Manifest, want: &mut BTreeSet<String>| -> Option<()> {
        let mut e = Edit::default();
        let s = format!("e{n}");
        e.add(&s).ok()?;
        if n % 3 == 2 {
            e.rm(&format!("e{}", n - 2)).ok()?;
            want.remove(&format!("e{}", n - 2));
        }
        m.apply(e).ok()?;
        want.insert(s);
        n += 1;
        Some(())
    };
    for _ in 0..before {
        apply_one(&mut m, &mut want)?;
    }
    let exe = std::env::current_exe().ok()?;
    let mut child = std::process::Command::new(exe)
        .arg("--child-wait-open")
        .arg(format!("{ratio}:{}:{}", if b_edits { 1 } else { 0 }, dir.display()))
        .stdout(std::process::Stdio::piped())
        .stderr(std::process::Stdio::null())
        .spawn()
        .ok()?;
    let deadline = std::time::Instant::now() + std::time::Duration::from_secs(20);
    while !blocked_in_fcntl(child.id()) {
        if std::time::Instant::now() > deadline || child.try_wait().ok()?.is_some() {
            let _ = child.kill();
            let _ = child.wait();
            return None;
        }
        std::thread::sleep(std::time::Duration::from_micros(200));
    }
    for _ in 0..during {
        apply_one(&mut m, &mut want)?;
    }
    drop(m);
    let out = child.wait_with_output().ok()?;
    if out.status.code() != Some(10) {
        return Some(Err((
            "second-opener-failed".into(),
            format!("the opener that waited for the lock exited with {:?}", out.status.code()),
        )));
    }
    let seen: BTreeSet<String> = String::from_utf8_lossy(&out.stdout).lines().map(|l| l.to_string()).collect();
    if seen != want {
        return Some(Err((
            "second-opener-saw-stale-state".into(),
            format!("the opener that obtained the lock after the first closed saw {seen:?}; every one of the first opener's edits had returned, so it should see {want:?}"),
        )));
    }
    if b_edits {
        want.insert("from-b".into());
    }
    let m = match Manifest::open(options(ratio, false), &dir) {
        Ok(m) => m,
        Err(e) => return Some(Err(("reopen-failed".into(), format!("{e}")))),
    };
    let got: BTreeSet<String> = m.strs().map(|s| s.to_string()).collect();
    drop(m);
    if got != want {
        return Some(Err((
            "reopen-lost-acknowledged-edits".into(),
            format!("after both openers closed, reopening yields {got:?}; acknowledged edits give {want:?}"),
        )));
    }
    let errs: Vec<String> = Manifest::verify(options(ratio, false), &dir).map(|e| e.to_string()).collect();
    if !errs.is_empty() {
        return Some(Err(("verify-reports".into(), format!("Manifest::verify: {}", errs[0]))));
    }
    Some(Ok(()))
}

fn check_waiting_openers(scratch: &Scratch, rep: &mut Report, max_edits: usize) {
    for ratio in [1u64, 2, 1000] {
        for b_edits in [false, true] {
            for before in 0..=max_edits {
                for during in 0..=(max_edits - before) {
                    rep.evaluations += 1;
                    rep.transitions += (before + during + 3) as u64;
                    let r = waiting_opener(before, during, ratio, b_edits, scratch);
                    match r {
                        None => rep.count("lock_scenarios_machinery_failed", 1),
                        Some(Ok(())) => {
                            rep.traces_validated += 1;
                            rep.count("waiting_opener_schedules", 1);
                            rep.states.insert(stable_hash(&("wait", ratio, b_edits, before, during)));
                            rep.outcomes.insert(stable_hash(&("wait-ok", before + during, b_edits)));
                        }
                        Some(Err((sig, detail))) => {
                            // replay before report
                            match waiting_opener(before, during, ratio, b_edits, scratch) {
                                Some(Err((s2, _))) if s2 == sig => {}
                                _ => {
                                    rep.count("non_reproducible_findings", 1);
                                    continue;
                                }
                            }
                            rep.outcomes.insert(stable_hash(&("wait-bad", &sig)));
                            rep.violation(Violation {
                                property: PROP.into(),
                                signature: format!("c13:lock:waiting-opener:{sig}"),
                                detail: format!("first opener applies {before} edits, second opener starts and blocks on the lock, first applies {during} more and closes (rollover ratio {ratio}, second opener {}): {detail}", if b_edits { "applies an edit" } else { "only reads" }),
                                case: json!({"kind": "waiting-opener", "before": before, "during": during, "ratio": ratio, "b_edits": b_edits}),
                            });
                        }
                    }
                }
            }
        }
    }
}

static THOROUGH: std::sync::atomic::AtomicBool = std::sync::atomic::AtomicBool::new(false);

const LOCK_SCENARIOS: [&str; 3] = ["held", "held-after-refused-second-open-in-process", "released"];

fn check_locks(scratch: &Scratch, rep: &mut Report) {
    for name in LOCK_SCENARIOS {
        rep.evaluations += 1;
        rep.transitions += 4;
        match lock_scenario(name, scratch) {
            None => rep.count("lock_scenarios_machinery_failed", 1),
            Some((got, want)) => {
                rep.traces_validated += 1;
                rep.count("lock_scenarios", 1);
                rep.outcomes.insert(stable_hash(&("lock", got)));
                if got != want {
                    if lock_scenario(name, scratch) != Some((got, want)) {
                        rep.count("non_reproducible_findings", 1);
                        continue;
                    }
                    rep.violation(Violation {
                        property: PROP.into(),
                        signature: format!("c13:lock:other-process-open-{}:{name}", if got { "succeeded" } else { "refused" }),
                        detail: format!(
                            "scenario {name}: Manifest::open(fail_if_locked) in a second process {}; expected it to {}",
                            if got { "succeeded" } else { "was refused" },
                            if want { "succeed" } else { "be refused while the first Manifest is alive" }
                        ),
                        case: json!({"kind": "lock", "scenario": name}),
                    });
                }
            }
        }
    }
}

/////////////////////////////////////////////// main //////////////////////////////////////////////

struct Item {
    alpha: usize,
    depth: usize,
    ratio: u64,
    first: Option<usize>,
    prune: bool,
}

enum Work {
    Seq(Item),
    Bytes(Vec<Op>),
    Cut(String, u64, Vec<Op>),
    Newlines,
    Locks,
}

fn main() {
    let args = Args::parse();
    if let Some(d) = args.get("child-lock-probe") {
        child_lock_probe(d);
    }
    if let Some(spec) = args.get("child-wait-open") {
        child_wait_open(spec);
    }
    vcore::quiet_panics();
    silence();
    options_selfcheck();
    manimc::mani_sub::chain_selfcheck();
    if let Some(rf) = args.replay_case() {
        replay(&rf);
    }
    let thorough = args.tier_thorough();
    THOROUGH.store(thorough, std::sync::atomic::Ordering::Relaxed);
    let plan = args
        .get("plan")
        .unwrap_or(if thorough { "full:2,full:3:prune,core:4,tiny:5" } else { "full:2,core:3" })
        .to_string();
    let ratios: Vec<u64> = args
        .get("ratios")
        .unwrap_or("1,2,1000")
        .split(',')
        .map(|s| s.parse().expect("ratio"))
        .collect();
    let cut_plan = args
        .get("cut-plan")
        .unwrap_or(if thorough { "core:2,tiny:3" } else { "core:2" })
        .to_string();
    let mut alphas: Vec<(Alphabet, Vec<Op>, usize, bool)> = vec![];
    for part in plan.split(',').filter(|p| !p.is_empty()) {
        let mut it = part.split(':');
        let n = it.next().expect("plan entries are name:depth[:prune]");
        let d = it.next().expect("plan entries are name:depth[:prune]");
        let prune = it.next() == Some("prune");
        let a = Alphabet::by_name(n);
        let syms = a.symbols();
        alphas.push((a, syms, d.parse().expect("depth"), prune));
    }
    let mut work: Vec<Work> = vec![Work::Newlines, Work::Locks];
    for (ai, (_, syms, depth, prune)) in alphas.iter().enumerate() {
        for &ratio in ratios.iter() {
            work.push(Work::Seq(Item { alpha: ai, depth: *depth, ratio, first: None, prune: *prune }));
            if *depth >= 1 {
                for f in 0..syms.len() {
                    work.push(Work::Seq(Item { alpha: ai, depth: *depth, ratio, first: Some(f), prune: *prune }));
                }
            }
        }
    }
    let sweep = byte_sweep_histories();
    let n_sweep = sweep.len();
    for ops in sweep {
        work.push(Work::Bytes(ops));
    }
    for (name, ratio, ops) in curated_histories() {
        work.push(Work::Cut(format!("curated:{name}"), ratio, ops));
    }
    let mut cut_bound = vec![];
    for part in cut_plan.split(',').filter(|p| !p.is_empty()) {
        let (n, d) = part.split_once(':').expect("cut-plan entries are name:depth");
        let a = Alphabet::by_name(n);
        let d: usize = d.parse().expect("depth");
        let hs = all_sequences(&a.symbols(), d);
        cut_bound.push(json!({"alphabet": a.to_json(), "max_depth": d, "histories_per_ratio": hs.len()}));
        for ops in hs {
            for &ratio in ratios.iter() {
                work.push(Work::Cut(format!("{n}-sequence"), ratio, ops.clone()));
            }
        }
    }
    // long items first
    work.sort_by_key(|w| match w {
        Work::Seq(i) if i.first.is_some() => 0,
        _ => 1,
    });
    let mk = || Report::new("seq_mani", PROP);
    let alphas_ref = &alphas;
    let mut total = vcore::parallel(work, args.threads(), mk, |w, rep| {
        let scratch = Scratch::new("mani");
        match w {
            Work::Newlines => check_newlines(rep),
            Work::Locks => {
                check_locks(&scratch, rep);
                check_waiting_openers(&scratch, rep, if THOROUGH.load(std::sync::atomic::Ordering::Relaxed) { 6 } else { 4 });
            }
            Work::Cut(name, ratio, ops) => cut_sweep(name, *ratio, ops, &scratch, rep),
            Work::Bytes(ops) => {
                let alpha = Alphabet { name: "byte-sweep", strings: vec![], keys: vec![], pair_strings: vec![] };
                let ctx = Ctx { alpha: &alpha, symbols: &[], depth: 1, ratio: 1000, prune: false };
                evaluate(&ctx, ops, &scratch, rep);
                rep.count("byte_sweep_histories", 1);
            }
            Work::Seq(item) => {
                let (alpha, syms, _, _) = &alphas_ref[item.alpha];
                let ctx = Ctx { alpha, symbols: syms, depth: item.depth, ratio: item.ratio, prune: item.prune };
                match item.first {
                    None => {
                        evaluate(&ctx, &[], &scratch, rep);
                    }
                    Some(f) => {
                        let mut ops = vec![syms[f].clone()];
                        explore(&ctx, &mut ops, &scratch, rep);
                    }
                }
            }
        }
    });
    total.bound = json!({
        "sequence_runs": alphas.iter().map(|(a, s, d, p)| json!({
            "alphabet": a.to_json(),
            "max_depth": d,
            "histories_with_a_finding_are_not_extended": p,
            "sequences_per_ratio": (0..=*d).map(|k| (s.len() as u64).pow(k as u32)).sum::<u64>(),
        })).collect::<Vec<_>>(),
        "rollover_ratios": ratios,
        "truncation": {
            "curated_histories": curated_histories().iter().map(|(n, r, o)| json!({"name": n, "ratio": r, "ops": show_ops(o)})).collect::<Vec<_>>(),
            "all_sequences_of": cut_bound,
            "cuts": "every length 0..=len of the newest file MANIFEST",
        },
        "byte_sweep": {
            "characters": "U+0001..U+00FF except newline, plus U+0800, U+FFFF, U+10000, U+10FFFF",
            "placements": ["whole string", "first", "middle", "last (add)", "last (rm)", "last (info value)", "info key", "info key with empty value"],
            "histories": n_sweep,
            "ratio": 1000,
        },
        "newline_cases": newline_cases().len(),
        "lock_scenarios_two_processes": LOCK_SCENARIOS,
    });
    total.rule = "every edit history of length <= depth over each listed alphabet, per rollover ratio, each executed from Manifest::open on a fresh tmpfs directory (no pruning, except in the runs marked histories_with_a_finding_are_not_extended, where the subtree below a history that already violates the property is skipped and its size is reported as pruned; a history whose mid-sequence reopen already fails is cut short there and counted); after every step the live strs()/info() are compared with a BTreeSet/BTreeMap reference, at the end: second open refused, drop + open equals the reference, Manifest::verify silent, fragments chain (ManifestIterator). Truncation: for each listed history every byte length of MANIFEST is reopened. distinct states = (reference state, backups before the final reopen, fragments after it); non-trivial = at least one rollover happened during the history and the state is non-empty; outcomes = (result of the last step, failing oracle, state, fragment count) resp. (cut position class, reopen outcome class).".into();
    total.assumptions = vec![
        "tmpfs directory, no faults: crash points and I/O errors are the crash_mani job's".into(),
        "info keys are observable only by lookup: all ASCII keys plus every non-ASCII key the history uses are asked, and size() is cross-checked".into(),
        "an edit adding and removing the same string is documented ambiguously; either reading is admitted as long as the reopened state agrees with the live one".into(),
    ];
    if total.counters.get("cut_control_failed").copied().unwrap_or(0) > 0 {
        total.cap("truncation control failed (uncut file did not reopen to the full state) for some histories; see the sequence findings");
    }
    restore();
    total.finish(&args, "seq_mani");
    let summary = format!(
        "seq_mani: {} evaluations, {} subject calls, {} states ({} non-trivial), {} outcomes, {} violation signatures, {:.1} s",
        total.evaluations,
        total.transitions,
        total.states.len(),
        total.nontrivial.len(),
        total.outcomes.len(),
        total.violation_sigs.len(),
        total.started.elapsed().as_secs_f64()
    );
    eprintln!("{summary}");
    for (s, n) in total.violation_sigs.iter() {
        eprintln!("  {n:>9} x {s}");
    }
}

////////////////////////////////////////////// replay /////////////////////////////////////////////

fn replay(rf: &Value) -> ! {
    let case = &rf["case"];
    let want = rf["signature"].as_str().unwrap_or("");
    let scratch = Scratch::new("replay");
    let reproduced = match case["kind"].as_str().unwrap_or("seq") {
        "seq" => {
            let ratio = case["ratio"].as_u64().expect("ratio");
            let ops = ops_from_json(&case["ops"]);
            say(&format!("replaying history {} with rollover ratio {ratio}", show_ops(&ops)));
            let out = run(&scratch, ratio, &ops);
            say(&format!("steps: {:?}", out.steps));
            match out.finding {
                Some(f) => {
                    let sig = signature(&f.oracle, ratio, &ops);
                    say(&format!("finding {sig}: {}", f.detail));
                    if !want.is_empty() && sig != want {
                        say(&format!("a finding, but not the recorded one ({want})"));
                        std::process::exit(1);
                    }
                    true
                }
                None => {
                    say(&format!("no finding: all oracles pass; reopened state {}", out.model.show()));
                    false
                }
            }
        }
        "cut" => {
            let ratio = case["ratio"].as_u64().expect("ratio");
            let ops = ops_from_json(&case["ops"]);
            let cut = case["cut"].as_u64().expect("cut") as usize;
            let p = build_pristine(&scratch, ratio, &ops).expect("history");
            say(&format!(
                "history {} (ratio {ratio}), MANIFEST {} bytes cut to {cut}; expected: an explicit error or one of {}",
                show_ops(&ops),
                p.manifest_len,
                p.prefix_states.iter().map(|s| s.show()).collect::<Vec<_>>().join(" / ")
            ));
            let o = cut_and_reopen(&scratch, &p, ratio, cut);
            say(&format!("observed: {o:?}"));
            matches!(o, CutOutcome::NotAPrefix(_) | CutOutcome::Panic(_) | CutOutcome::FollowUp(..))
        }
        "waiting-opener" => {
            let (before, during) = (case["before"].as_u64().unwrap() as usize, case["during"].as_u64().unwrap() as usize);
            let ratio = case["ratio"].as_u64().unwrap();
            let b_edits = case["b_edits"].as_bool().unwrap();
            say(&format!("first opener applies {before} edits, second opener blocks on the lock, first applies {during} more and closes (ratio {ratio}, second opener edits: {b_edits})"));
            match waiting_opener(before, during, ratio, b_edits, &scratch) {
                None => {
                    say("machinery: could not establish the schedule");
                    std::process::exit(2);
                }
                Some(Ok(())) => {
                    say("no finding: the second opener and the final reopen see every acknowledged edit");
                    false
                }
                Some(Err((sig, detail))) => {
                    say(&format!("finding c13:lock:waiting-opener:{sig}: {detail}"));
                    true
                }
            }
        }
        "newline" => {
            let name = case["name"].as_str().unwrap_or("");
            let op = newline_cases().into_iter().find(|(n, _)| *n == name).expect("case").1;
            let rejected = newline_rejected(&op);
            say(&format!("{}: expected rejection; observed {}", op.show(), if rejected { "rejection" } else { "acceptance" }));
            !rejected
        }
        "lock" => {
            let name = case["scenario"].as_str().unwrap_or("").to_string();
            match lock_scenario(&name, &scratch) {
                Some((got, wanted)) => {
                    say(&format!("scenario {name}: expected other process opens = {wanted}; observed {got}"));
                    got != wanted
                }
                None => {
                    say("machinery failure in the lock scenario");
                    std::process::exit(2);
                }
            }
        }
        k => panic!("unknown case kind {k}"),
    };
    if reproduced {
        say(&format!("REPRODUCED {want}"));
        std::process::exit(1);
    }
    say("not reproduced: the property holds on this case");
    std::process::exit(0);
}
