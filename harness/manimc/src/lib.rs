// shared helpers for the manimc harness binaries
