//! Shared pieces of the manimc harness binaries: the manifest subject (C13) and the sequential
//! references for the LRU cache and the wait list (C18).

pub mod lru_ref;
pub mod mani_sub;
pub mod stdout;
pub mod wire;
pub mod wl_ref;
