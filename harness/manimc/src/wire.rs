//! A `vcore::Report` as JSON, so that a phase that may abort the process (a panic inside a
//! destructor of the subject while unwinding) can run in a child process and hand its counts back.

use vcore::{Report, Value, Violation, json};

pub fn to_wire(r: &Report) -> Value {
    json!({
        "evaluations": r.evaluations,
        "transitions": r.transitions,
        "traces_validated": r.traces_validated,
        "pruned_noops": r.pruned_noops,
        "states": r.states.iter().collect::<Vec<_>>(),
        "nontrivial": r.nontrivial.iter().collect::<Vec<_>>(),
        "outcomes": r.outcomes.iter().collect::<Vec<_>>(),
        "exhaustive": r.exhaustive,
        "cap_hit": r.cap_hit,
        "samples": r.samples,
        "violations": r.violations.iter().map(|v| json!({
            "property": v.property, "signature": v.signature, "detail": v.detail, "case": v.case,
        })).collect::<Vec<_>>(),
        "violation_sigs": r.violation_sigs,
        "counters": r.counters,
    })
}

pub fn from_wire(job: &str, property: &str, v: &Value) -> Report {
    let mut r = Report::new(job, property);
    let n = |k: &str| v[k].as_u64().unwrap_or_else(|| panic!("wire report lacks {k}"));
    r.evaluations = n("evaluations");
    r.transitions = n("transitions");
    r.traces_validated = n("traces_validated");
    r.pruned_noops = n("pruned_noops");
    for (k, set) in [("states", &mut r.states), ("nontrivial", &mut r.nontrivial), ("outcomes", &mut r.outcomes)] {
        for x in v[k].as_array().expect("hash list") {
            set.insert(x.as_u64().expect("hash"));
        }
    }
    r.exhaustive = v["exhaustive"].as_bool().unwrap_or(false);
    r.cap_hit = v["cap_hit"].as_str().map(|s| s.to_string());
    r.samples = v["samples"].as_array().cloned().unwrap_or_default();
    for x in v["violations"].as_array().expect("violations") {
        r.violations.push(Violation {
            property: x["property"].as_str().unwrap_or(property).to_string(),
            signature: x["signature"].as_str().unwrap_or("").to_string(),
            detail: x["detail"].as_str().unwrap_or("").to_string(),
            case: x["case"].clone(),
        });
    }
    if let Some(m) = v["violation_sigs"].as_object() {
        for (k, x) in m {
            r.violation_sigs.insert(k.clone(), x.as_u64().unwrap_or(0));
        }
    }
    if let Some(m) = v["counters"].as_object() {
        for (k, x) in m {
            r.counters.insert(k.clone(), x.as_u64().unwrap_or(0));
        }
    }
    r
}
