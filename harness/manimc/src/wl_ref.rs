//! Sequential reference for `sync42::wait_list::WaitList` (C18): one thread links up to four
//! guards, unlinks them in any order (explicitly or by dropping the guard), calls `notify_head`,
//! and after every step asks every live guard everything that can be asked without blocking.
//!
//! Reference: guards get consecutive indices from `base`; the head is the oldest guard that is
//! still linked; `count` is the span from the head to the tail (`tail - head`, holes included);
//! `get_waiter(i)` from guard g is `Some` exactly for linked indices `g <= i < tail`; an iterator
//! from g yields strictly increasing indices in `[g, tail)` and must contain every linked index
//! after g (whether it also yields g itself or unlinked holes is not documented: not demanded);
//! values stored at link time are what `load` returns, through the owner and through `get_waiter`.

use std::mem::ManuallyDrop;

use sync42::wait_list::{WaitGuard, WaitList};
use vcore::{Value as Json, json};

#[derive(Clone, Copy, Debug, PartialEq, Eq, Hash)]
pub enum WlOp {
    Link,
    /// `WaitList::unlink(guard)`
    Unlink(usize),
    /// drop the guard (unlinks in `Drop`)
    DropGuard(usize),
    NotifyHead,
}

impl WlOp {
    pub fn show(&self) -> String {
        match self {
            WlOp::Link => "link".into(),
            WlOp::Unlink(i) => format!("unlink(g{i})"),
            WlOp::DropGuard(i) => format!("drop(g{i})"),
            WlOp::NotifyHead => "notify_head".into(),
        }
    }

    pub fn to_json(&self) -> Json {
        match self {
            WlOp::Link => json!({"op": "link"}),
            WlOp::Unlink(i) => json!({"op": "unlink", "g": i}),
            WlOp::DropGuard(i) => json!({"op": "drop", "g": i}),
            WlOp::NotifyHead => json!({"op": "notify_head"}),
        }
    }

    pub fn from_json(v: &Json) -> WlOp {
        let g = || v["g"].as_u64().expect("g") as usize;
        match v["op"].as_str().expect("op") {
            "link" => WlOp::Link,
            "unlink" => WlOp::Unlink(g()),
            "drop" => WlOp::DropGuard(g()),
            "notify_head" => WlOp::NotifyHead,
            x => panic!("unknown wait-list op {x}"),
        }
    }
}

/// Which operations are enabled after `ops` (guards are numbered in link order).
pub fn enabled(ops: &[WlOp], max_guards: usize) -> Vec<WlOp> {
    let mut linked: Vec<bool> = vec![];
    for op in ops {
        match op {
            WlOp::Link => linked.push(true),
            WlOp::Unlink(i) | WlOp::DropGuard(i) => linked[*i] = false,
            WlOp::NotifyHead => {}
        }
    }
    let mut v = vec![];
    if linked.len() < max_guards {
        v.push(WlOp::Link);
    }
    for (i, l) in linked.iter().enumerate() {
        if *l {
            v.push(WlOp::Unlink(i));
        }
    }
    for (i, l) in linked.iter().enumerate() {
        if *l {
            v.push(WlOp::DropGuard(i));
        }
    }
    v.push(WlOp::NotifyHead);
    v
}

#[derive(Clone, Debug, PartialEq, Eq)]
pub struct WlFinding {
    pub signature: String,
    pub detail: String,
}

#[derive(Clone, Debug, PartialEq, Eq, Hash)]
pub struct Probe {
    /// per live guard: (guard number, index, is_head, count, load, get_waiter results, iterator)
    pub guards: Vec<(usize, u64, bool, u64, u64, Vec<Option<(u64, u64)>>, Vec<u64>)>,
}

pub struct WlRun {
    pub finding: Option<WlFinding>,
    pub calls: u64,
    /// shape of the last probe with indices made relative to the base
    pub last_shape: Vec<(usize, bool, u64, Vec<bool>, Vec<u64>)>,
    pub handoffs: u64,
    pub holes_seen: bool,
}

fn value_of(g: usize) -> u64 {
    100 + g as u64
}

/// Ask every live guard everything.  `n` guards were linked so far; indices `base-1 .. base+n`
/// are probed through `get_waiter` (one before the first and one past the tail included).
fn probe<'a>(guards: &mut [Option<WaitGuard<'a, u64>>], base: u64, n: usize, calls: &mut u64) -> Probe {
    let mut out = vec![];
    for gi in 0..guards.len() {
        let Some(g) = guards[gi].as_mut() else { continue };
        let index = g.index();
        let is_head = g.is_head();
        let count = g.count();
        let load = g.load();
        *calls += 4;
        let mut waiters = vec![];
        let lo = base.saturating_sub(1);
        for idx in lo..=(base + n as u64) {
            *calls += 1;
            match g.get_waiter(idx) {
                Some(mut w) => {
                    let wi = w.index();
                    let wv = w.load();
                    waiters.push(Some((wi, wv)));
                }
                None => waiters.push(None),
            }
        }
        *calls += 1;
        let it: Vec<u64> = {
            let g: &WaitGuard<'_, u64> = guards[gi].as_ref().unwrap();
            g.iter().map(|mut w| w.index()).collect()
        };
        out.push((gi, index, is_head, count, load, waiters, it));
    }
    Probe { guards: out }
}

/// Run one sequence on a fresh list whose first `pre` indices were used up by link/unlink pairs.
pub fn run(pre: u64, ops: &[WlOp]) -> WlRun {
    let mut out = WlRun {
        finding: None,
        calls: 0,
        last_shape: vec![],
        handoffs: 0,
        holes_seen: false,
    };
    let r = vcore::catch(|| run_inner(pre, ops, &mut out));
    if let Err(p) = r {
        out.finding = Some(WlFinding {
            signature: "c18:waitlist:panic".into(),
            detail: format!("the wait list panicked: {p}"),
        });
    }
    out
}

fn fail(out: &mut WlRun, sig: &str, detail: String) {
    if out.finding.is_none() {
        out.finding = Some(WlFinding {
            signature: format!("c18:waitlist:{sig}"),
            detail,
        });
    }
}

fn run_inner(pre: u64, ops: &[WlOp], out: &mut WlRun) {
    let list: WaitList<u64> = WaitList::new();
    for _ in 0..pre {
        let g = list.link(0);
        list.unlink(g);
    }
    out.calls += 1 + 2 * pre;
    let base = pre;
    // Guards are only dropped on the normal path: if the subject panics with its mutex held, the
    // guards' Drop would panic again while unwinding and abort the process.
    let mut guards: ManuallyDrop<Vec<Option<WaitGuard<'_, u64>>>> = ManuallyDrop::new(vec![]);
    let mut linked: Vec<bool> = vec![];
    let mut prev_head: Option<usize> = None;
    for (step, op) in ops.iter().enumerate() {
        out.calls += 1;
        match op {
            WlOp::Link => {
                let gi = linked.len();
                let g = list.link(value_of(gi));
                guards.push(Some(g));
                linked.push(true);
            }
            WlOp::Unlink(i) => {
                let g = guards[*i].take().expect("harness: unlink of a guard that is gone");
                list.unlink(g);
                linked[*i] = false;
            }
            WlOp::DropGuard(i) => {
                let g = guards[*i].take().expect("harness: drop of a guard that is gone");
                drop(g);
                linked[*i] = false;
            }
            WlOp::NotifyHead => list.notify_head(),
        }
        let n = linked.len();
        let tail = base + n as u64;
        let head: Option<usize> = linked.iter().position(|l| *l);
        let p1 = probe(&mut guards, base, n, &mut out.calls);
        let p2 = probe(&mut guards, base, n, &mut out.calls);
        if p1 != p2 {
            fail(out, "probe-not-repeatable", format!("step {step} {}: asking twice gave {p1:?} then {p2:?}", op.show()));
            break;
        }
        // exactly one head among linked waiters, and it is the oldest linked one
        let heads: Vec<usize> = p1.guards.iter().filter(|g| g.2).map(|g| g.0).collect();
        let want_heads: Vec<usize> = head.into_iter().collect();
        if heads != want_heads {
            let sig = if heads.len() != want_heads.len() {
                if heads.is_empty() { "no-head-among-linked" } else { "more-than-one-head" }
            } else {
                "head-is-not-the-oldest-linked"
            };
            let after = match op {
                WlOp::Unlink(i) | WlOp::DropGuard(i) if prev_head == Some(*i) => ":after-head-left",
                _ => "",
            };
            fail(
                out,
                &format!("{sig}{after}"),
                format!("step {step} {}: linked {linked:?}; expected head guard(s) {want_heads:?}; is_head() is true for {heads:?}", op.show()),
            );
            break;
        }
        if let (Some(p), Some(h)) = (prev_head, head) {
            if p != h && !linked[p] {
                out.handoffs += 1;
            }
        }
        prev_head = head;
        let mut shape = vec![];
        for (gi, index, is_head, count, load, waiters, it) in p1.guards.iter() {
            let my = base + *gi as u64;
            if *index != my {
                fail(out, "index-differs", format!("step {step}: guard g{gi} reports index {index}, expected {my}"));
            }
            let want_count = tail - (base + head.unwrap() as u64);
            if *count != want_count {
                fail(out, "count-differs", format!("step {step} {}: guard g{gi}.count() = {count}, expected tail - head = {want_count} (linked {linked:?})", op.show()));
            }
            if *load != value_of(*gi) {
                fail(out, "load-differs", format!("step {step}: guard g{gi}.load() = {load}, expected {}", value_of(*gi)));
            }
            let lo = base.saturating_sub(1);
            let mut shape_w = vec![];
            for (k, w) in waiters.iter().enumerate() {
                let idx = lo + k as u64;
                let want = if idx >= my && idx < tail && idx >= base && linked[(idx - base) as usize] {
                    Some((idx, value_of((idx - base) as usize)))
                } else {
                    None
                };
                if *w != want {
                    fail(
                        out,
                        if want.is_none() { "get_waiter-returns-unlinked-or-out-of-range" } else { "get_waiter-misses-linked" },
                        format!("step {step} {}: g{gi}.get_waiter({idx}) = {w:?}, expected {want:?} (base {base}, linked {linked:?})", op.show()),
                    );
                }
                shape_w.push(w.is_some());
            }
            // iterator: strictly increasing, inside [my, tail), contains every later linked index
            let increasing = it.windows(2).all(|w| w[0] < w[1]);
            let inside = it.iter().all(|i| *i >= my && *i < tail);
            let mut complete = true;
            for (j, l) in linked.iter().enumerate() {
                let idx = base + j as u64;
                if *l && idx > my && !it.contains(&idx) {
                    complete = false;
                }
            }
            if !increasing || !inside || !complete {
                fail(
                    out,
                    if !complete { "iterator-misses-later-linked-guard" } else { "iterator-out-of-range-or-unordered" },
                    format!("step {step} {}: g{gi}.iter() yields {it:?}; base {base}, tail {tail}, linked {linked:?}", op.show()),
                );
            }
            if it.iter().any(|i| !linked[(*i - base) as usize]) {
                out.holes_seen = true;
            }
            shape.push((*gi, *is_head, *count, shape_w, it.iter().map(|i| i - base).collect()));
        }
        if out.finding.is_some() {
            break;
        }
        out.last_shape = shape;
    }
    if out.finding.is_none() || !out.finding.as_ref().unwrap().signature.ends_with("panic") {
        // normal path: release the guards (their Drop unlinks)
        unsafe { ManuallyDrop::drop(&mut guards) };
    }
}
