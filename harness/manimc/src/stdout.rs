//! `Manifest::verify` prints a line per fragment with `println!`.  The harness sends fd 1 to
//! /dev/null while exploring and keeps the original for its own messages.

use std::fs::File;
use std::io::Write;
use std::os::fd::FromRawFd;
use std::sync::Mutex;

static REAL: Mutex<Option<File>> = Mutex::new(None);

/// Redirect fd 1 to /dev/null; `say` still reaches the original stdout.
pub fn silence() {
    let mut g = REAL.lock().unwrap();
    if g.is_some() {
        return;
    }
    unsafe {
        let _ = std::io::stdout().flush();
        let saved = libc::dup(1);
        assert!(saved >= 0, "dup(1) failed");
        let null = libc::open(c"/dev/null".as_ptr(), libc::O_WRONLY);
        assert!(null >= 0, "cannot open /dev/null");
        assert!(libc::dup2(null, 1) >= 0, "dup2 failed");
        libc::close(null);
        *g = Some(File::from_raw_fd(saved));
    }
}

/// Give fd 1 back (before the report is printed to stdout).
pub fn restore() {
    let mut g = REAL.lock().unwrap();
    if let Some(f) = g.take() {
        use std::os::fd::AsRawFd;
        unsafe {
            let _ = std::io::stdout().flush();
            libc::dup2(f.as_raw_fd(), 1);
        }
    }
}

pub fn say(s: &str) {
    let mut g = REAL.lock().unwrap();
    match g.as_mut() {
        Some(f) => {
            let _ = writeln!(f, "{s}");
        }
        None => println!("{s}"),
    }
}
