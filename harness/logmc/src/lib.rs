//! C12 (sequential and truncation halves): the log.
pub mod alloc;
pub mod logsub;
