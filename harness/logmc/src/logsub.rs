//! The sequential / truncation subject for C12: batches of exact encoded sizes, logs written by
//! the real `sst::log::LogBuilder`, read back by the real `sst::log::LogIterator`, and the boring
//! references they are compared with (a list of entries per batch, an independent size model of
//! the entry and header encodings, an independent frame parser for the file layout).

use std::collections::HashMap;
use std::io::{Cursor, Read, Seek};
use std::sync::Arc;

use arrrg::CommandLine;
use sst::log::{LogBuilder, LogIterator, LogOptions, WriteBatch};
use sst::{Builder, Setsum};
use vcore::{Value, json};

use crate::alloc;

pub const BLOCK: u64 = 1 << 20;
pub const HEADER_MAX: u64 = sst::log::HEADER_MAX_SIZE;
pub const MAX_VALUE_LEN: usize = sst::MAX_VALUE_LEN;
/// A single allocation request above this is reported as an unbounded allocation attempt.
pub const ALLOC_LIMIT: usize = 64 << 20;

/// (signature, detail)
pub type Finding = (String, String);

////////////////////////////////////////////// entries /////////////////////////////////////////////

#[derive(Clone, Debug, PartialEq, Eq, Hash)]
pub struct Entry {
    pub key: Vec<u8>,
    pub ts: u64,
    pub value: Option<Vec<u8>>,
}

impl Entry {
    pub fn size(&self) -> usize {
        entry_size(self.key.len(), self.ts, self.value.as_ref().map(|v| v.len()))
    }

    pub fn show(&self) -> String {
        match &self.value {
            Some(v) => format!("put({:?}@{}, {} bytes)", vcore::esc(&self.key), self.ts, v.len()),
            None => format!("del({:?}@{})", vcore::esc(&self.key), self.ts),
        }
    }
}

pub fn varint_len(mut x: u64) -> usize {
    let mut n = 1;
    while x >= 128 {
        x >>= 7;
        n += 1;
    }
    n
}

/// Independent size model of one log entry: a one-byte tag, a length, and a body of
/// shared(=0), key, timestamp and (for puts) value, every field with a one-byte tag.
pub fn entry_size(klen: usize, ts: u64, vlen: Option<usize>) -> usize {
    let mut body = 2 + 1 + varint_len(klen as u64) + klen + 1 + varint_len(ts);
    if let Some(v) = vlen {
        body += 1 + varint_len(v as u64) + v;
    }
    1 + varint_len(body as u64) + body
}

/// Independent size model of a frame header: its own length byte, then size (tag + varint),
/// discriminant (tag + one byte) and crc32c (tag + four bytes).
pub fn header_len(size: u64) -> u64 {
    1 + 1 + varint_len(size) as u64 + 2 + 5
}

fn fill(len: usize, seed: u32) -> Vec<u8> {
    let s = seed.wrapping_mul(31).wrapping_add(17);
    (0..len)
        .map(|i| ((i as u32).wrapping_mul(7).wrapping_add(s) % 251) as u8)
        .collect()
}

fn key_for(id: u8, j: usize, len: usize) -> Vec<u8> {
    let base = [
        id,
        b'a' + (j % 26) as u8,
        b'0' + (j / 26) as u8,
        b'.',
        b'.',
        b'.',
        b'.',
        b'.',
    ];
    base[..len].to_vec()
}

fn put(id: u8, j: usize, klen: usize, ts: u64, vlen: usize) -> Entry {
    Entry {
        key: key_for(id, j, klen),
        ts,
        value: Some(fill(vlen, (id as u32) * 1000 + j as u32)),
    }
}

fn del(id: u8, j: usize, klen: usize, ts: u64) -> Entry {
    Entry {
        key: key_for(id, j, klen),
        ts,
        value: None,
    }
}

/// One entry of exactly `target` encoded bytes.
fn solve_last(target: usize, id: u8, j: usize, ts: u64) -> Entry {
    let del0 = entry_size(0, ts, None);
    assert!(target >= del0, "no entry is as small as {target} bytes");
    if target <= del0 + 4 {
        let e = del(id, j, target - del0, ts);
        assert_eq!(e.size(), target);
        return e;
    }
    for kl in [3usize, 4, 5, 2, 1, 0, 6, 7] {
        let base = entry_size(kl, ts, Some(0));
        if target < base {
            continue;
        }
        let guess = target - base;
        for v in guess.saturating_sub(8)..=guess {
            if v <= MAX_VALUE_LEN && entry_size(kl, ts, Some(v)) == target {
                return put(id, j, kl, ts, v);
            }
        }
    }
    panic!("cannot build an entry of exactly {target} bytes");
}

/// Entries of at most MAX_VALUE_LEN bytes each (a tombstone now and then) that encode to
/// exactly `target` bytes.
fn big_entries(target: usize, id: u8, idn: u64) -> Vec<Entry> {
    let mut out = vec![];
    let mut rem = target;
    let mut j = 0usize;
    loop {
        let ts = 200 + idn * 200 + j as u64;
        let full = entry_size(3, ts, Some(MAX_VALUE_LEN));
        if rem > full + 64 {
            if j % 8 == 5 {
                let e = del(id, j, 3, ts);
                rem -= e.size();
                out.push(e);
            } else {
                out.push(put(id, j, 3, ts, MAX_VALUE_LEN));
                rem -= full;
            }
        } else if rem > full {
            let e = put(id, j, 3, ts, MAX_VALUE_LEN / 2);
            rem -= e.size();
            out.push(e);
        } else {
            out.push(solve_last(rem, id, j, ts));
            break;
        }
        j += 1;
        assert!(j < 200);
    }
    assert_eq!(out.iter().map(|e| e.size()).sum::<usize>(), target);
    out
}

////////////////////////////////////////////// classes /////////////////////////////////////////////

/// Size classes of a batch (the number is the encoded size of the batch, header excluded).
#[derive(Clone, Copy, Debug, PartialEq, Eq, Hash, PartialOrd, Ord)]
pub enum Class {
    /// one tombstone with an empty key: the smallest batch there is (8 bytes)
    Min,
    /// 9 / 10 / 11 bytes: header + batch = 19 / 20 / 21 bytes
    F19,
    F20,
    F21,
    /// 19 / 20 / 21 bytes of batch
    B19,
    B20,
    B21,
    K1500,
    K4096,
    /// three entries (put, tombstone, put), about 260 bytes
    Multi,
    /// sst::log::MAX_BATCH_SIZE (1 MiB - 2 * HEADER_MAX_SIZE), the documented maximum
    DeclMax,
    /// 1 MiB: the largest batch WriteBatch accepts
    Max,
    /// 1 MiB - 10 bytes, then an 11-byte entry (one byte over: must be refused), a merge that
    /// would be one byte over (must be refused), then a 10-byte entry (exactly 1 MiB: accepted)
    Over,
    /// the batch(es) that position the log r bytes before the block boundary
    Filler,
}

pub const SEQ_CLASSES: [Class; 12] = [
    Class::Min,
    Class::F19,
    Class::F20,
    Class::F21,
    Class::B19,
    Class::B20,
    Class::B21,
    Class::K4096,
    Class::Multi,
    Class::DeclMax,
    Class::Max,
    Class::Over,
];

pub const SMALL_CLASSES: [Class; 9] = [
    Class::Min,
    Class::F20,
    Class::B19,
    Class::B21,
    Class::Multi,
    Class::K1500,
    Class::F19,
    Class::F21,
    Class::B20,
];

impl Class {
    pub fn name(&self) -> &'static str {
        match self {
            Class::Min => "Min",
            Class::F19 => "F19",
            Class::F20 => "F20",
            Class::F21 => "F21",
            Class::B19 => "B19",
            Class::B20 => "B20",
            Class::B21 => "B21",
            Class::K1500 => "K1500",
            Class::K4096 => "K4096",
            Class::Multi => "Multi",
            Class::DeclMax => "DeclMax",
            Class::Max => "Max",
            Class::Over => "Over",
            Class::Filler => "Filler",
        }
    }

    pub fn from_name(s: &str) -> Class {
        for c in SEQ_CLASSES.iter().chain(SMALL_CLASSES.iter()) {
            if c.name() == s {
                return *c;
            }
        }
        panic!("no batch class {s}");
    }

    pub fn is_big(&self) -> bool {
        matches!(self, Class::DeclMax | Class::Max | Class::Over | Class::Filler)
    }
}

/// A batch built through the real WriteBatch, with its reference entry list.
pub struct Built {
    pub class: Class,
    /// the entries WriteBatch accepted, in order
    pub entries: Vec<Entry>,
    pub wb: WriteBatch,
    /// recomputed over `entries` with sst::Setsum::{put,del}
    pub setsum: Setsum,
    /// encoded size by the independent size model (asserted equal to approximate_size)
    pub size: usize,
    /// a put / merge was refused while building this batch (class Over)
    pub had_rejection: bool,
    pub findings: Vec<Finding>,
    pub calls: u64,
}

fn add(wb: &mut WriteBatch, e: &Entry) -> Result<(), String> {
    match &e.value {
        Some(v) => wb.put(&e.key, e.ts, v),
        None => wb.del(&e.key, e.ts),
    }
    .map_err(|e| err_code(&e.to_string()))
}

fn setsum_of(entries: &[Entry]) -> Setsum {
    let mut s = Setsum::default();
    for e in entries {
        match &e.value {
            Some(v) => s.put(&e.key, e.ts, v),
            None => s.del(&e.key, e.ts),
        }
    }
    s
}

fn build_from(class: Class, planned: Vec<Entry>) -> Built {
    let mut wb = WriteBatch::default();
    let mut findings = vec![];
    let mut entries = vec![];
    let mut calls = 0;
    for e in planned {
        calls += 1;
        match add(&mut wb, &e) {
            Ok(()) => entries.push(e),
            Err(code) => findings.push((
                format!("c12:builder:legal-entry-rejected:{code}"),
                format!(
                    "WriteBatch refused {} at batch size {} (limit 1 MiB)",
                    e.show(),
                    wb.approximate_size()
                ),
            )),
        }
    }
    let size: usize = entries.iter().map(|e| e.size()).sum();
    assert_eq!(
        size,
        wb.approximate_size(),
        "machinery: the independent entry size model disagrees with WriteBatch::approximate_size"
    );
    let setsum = setsum_of(&entries);
    Built {
        class,
        entries,
        wb,
        setsum,
        size,
        had_rejection: false,
        findings,
        calls,
    }
}

/// Build the batch of `class` for position `pos` (1-based position after the filler).
pub fn build_batch(class: Class, pos: usize) -> Built {
    let id = b'A' + pos as u8;
    let ts = |j: usize| (pos * 8 + j + 1) as u64;
    let idn = pos as u64;
    match class {
        Class::Min => build_from(class, vec![del(id, 0, 0, ts(0))]),
        Class::F19 => build_from(class, vec![del(id, 0, 1, ts(0))]),
        Class::F20 => build_from(class, vec![put(id, 0, 0, ts(0), 0)]),
        Class::F21 => build_from(class, vec![put(id, 0, 0, ts(0), 1)]),
        Class::B19 => build_from(class, vec![del(id, 0, 0, ts(0)), put(id, 1, 0, ts(1), 1)]),
        Class::B20 => build_from(class, vec![put(id, 0, 0, ts(0), 0), del(id, 1, 2, ts(1))]),
        Class::B21 => build_from(class, vec![solve_last(21, id, 0, ts(0))]),
        Class::K1500 => {
            let d = del(id, 0, 3, ts(0));
            let rest = 1500 - d.size();
            build_from(class, vec![d, solve_last(rest, id, 1, ts(1))])
        }
        Class::K4096 => {
            let d = del(id, 0, 3, ts(0));
            let rest = 4096 - d.size();
            build_from(class, vec![d, solve_last(rest, id, 1, ts(1))])
        }
        Class::Multi => build_from(
            class,
            vec![
                put(id, 0, 3, ts(0), 16),
                del(id, 1, 3, ts(1)),
                put(id, 2, 3, ts(2), 200),
            ],
        ),
        Class::DeclMax => build_from(
            class,
            big_entries(sst::log::MAX_BATCH_SIZE as usize, id, idn),
        ),
        Class::Max => build_from(class, big_entries(BLOCK as usize, id, idn)),
        Class::Over => {
            let mut b = build_from(class, big_entries(BLOCK as usize - 10, id, idn));
            b.had_rejection = true;
            // one byte over through put
            let over = put(id, 190, 0, ts(0), 1);
            assert_eq!(over.size(), 11);
            let before = b.wb.approximate_size();
            b.calls += 1;
            match add(&mut b.wb, &over) {
                Err(_) => {
                    if b.wb.approximate_size() != before {
                        b.findings.push((
                            "c12:builder:rejected-entry-changed-batch".into(),
                            format!(
                                "a refused put changed the batch size from {before} to {}",
                                b.wb.approximate_size()
                            ),
                        ));
                    }
                }
                Ok(()) => {
                    b.findings.push((
                        "c12:builder:oversize-batch-accepted:put".into(),
                        format!(
                            "an 11-byte entry was accepted into a batch of {before} bytes: {} bytes exceed the 1 MiB limit",
                            b.wb.approximate_size()
                        ),
                    ));
                    b.entries.push(over);
                }
            }
            // one byte over through merge
            let mut other = WriteBatch::default();
            let oe = put(id, 191, 0, ts(1), 1);
            add(&mut other, &oe).expect("an 11-byte batch");
            let before = b.wb.approximate_size();
            b.calls += 1;
            match b.wb.merge(&other) {
                Err(_) => {
                    if b.wb.approximate_size() != before {
                        b.findings.push((
                            "c12:builder:rejected-entry-changed-batch".into(),
                            "a refused merge changed the batch size".into(),
                        ));
                    }
                }
                Ok(()) => {
                    if before + 11 > BLOCK as usize {
                        b.findings.push((
                            "c12:builder:oversize-batch-accepted:merge".into(),
                            format!("merging 11 bytes into a batch of {before} bytes was accepted"),
                        ));
                    }
                    b.entries.push(oe);
                }
            }
            // exactly the maximum
            let last = put(id, 192, 0, ts(2), 0);
            assert_eq!(last.size(), 10);
            b.calls += 1;
            match add(&mut b.wb, &last) {
                Ok(()) => b.entries.push(last),
                Err(code) => {
                    if b.entries.iter().map(|e| e.size()).sum::<usize>() + 10 <= BLOCK as usize {
                        b.findings.push((
                            format!("c12:builder:legal-entry-rejected:{code}"),
                            "a 10-byte entry that fills the batch to exactly 1 MiB was refused".into(),
                        ));
                    }
                }
            }
            b.size = b.entries.iter().map(|e| e.size()).sum();
            assert_eq!(b.size, b.wb.approximate_size(), "machinery: size model");
            b.setsum = setsum_of(&b.entries);
            b
        }
        Class::Filler => panic!("fillers are built by build_filler"),
    }
}

/// Batches that occupy exactly `BLOCK - r` bytes of file (headers included), in `parts` frames.
pub fn build_filler(r: u64, parts: usize) -> Vec<Arc<Built>> {
    assert!(parts >= 1 && parts <= 8 && r < BLOCK / 2);
    let total = BLOCK - r;
    let mut used = 0u64;
    let mut out = vec![];
    for p in 0..parts {
        let size = if p + 1 == parts {
            let rem = total - used;
            let mut found = None;
            for h in [12u64, 11, 13, 10] {
                if rem > h && header_len(rem - h) == h {
                    found = Some(rem - h);
                    break;
                }
            }
            found.expect("a batch size that fills the remainder")
        } else {
            total / parts as u64 - 100 + 37 * p as u64
        };
        used += header_len(size) + size;
        let mut b = build_from(
            Class::Filler,
            big_entries(size as usize, b'0' + p as u8, 10 + p as u64),
        );
        b.class = Class::Filler;
        out.push(Arc::new(b));
    }
    assert_eq!(used, total);
    out
}

/// All class batches, built once.
pub struct Lib {
    map: HashMap<(Class, usize), Arc<Built>>,
}

impl Lib {
    pub fn new(classes: &[Class], max_pos: usize) -> Lib {
        let mut map = HashMap::new();
        for c in classes {
            for pos in 1..=max_pos {
                map.insert((*c, pos), Arc::new(build_batch(*c, pos)));
            }
        }
        Lib { map }
    }

    pub fn get(&self, c: Class, pos: usize) -> Arc<Built> {
        match self.map.get(&(c, pos)) {
            Some(b) => Arc::clone(b),
            None => Arc::new(build_batch(c, pos)),
        }
    }

    /// Findings made while building the batches (refused legal entries, accepted oversize).
    pub fn findings(&self) -> Vec<(Class, Finding)> {
        let mut v = vec![];
        let mut keys: Vec<_> = self.map.keys().cloned().collect();
        keys.sort();
        for k in keys {
            for f in self.map[&k].findings.iter() {
                v.push((k.0, f.clone()));
            }
        }
        v
    }
}

////////////////////////////////////////////// LogSpec /////////////////////////////////////////////

/// A log: optionally a filler leaving `r` bytes before the first block boundary, then one batch
/// per class.
#[derive(Clone, Debug, PartialEq, Eq, Hash)]
pub struct LogSpec {
    pub r: Option<u64>,
    pub parts: usize,
    pub classes: Vec<Class>,
}

impl LogSpec {
    pub fn to_json(&self) -> Value {
        json!({
            "r": self.r,
            "filler_parts": self.parts,
            "classes": self.classes.iter().map(|c| c.name()).collect::<Vec<_>>(),
        })
    }

    pub fn from_json(v: &Value) -> LogSpec {
        LogSpec {
            r: v["r"].as_u64(),
            parts: v["filler_parts"].as_u64().unwrap_or(1) as usize,
            classes: v["classes"]
                .as_array()
                .map(|a| a.iter().map(|c| Class::from_name(c.as_str().unwrap())).collect())
                .unwrap_or_default(),
        }
    }

    pub fn assemble(&self, lib: &Lib) -> Vec<Arc<Built>> {
        let mut v = match self.r {
            Some(r) => build_filler(r, self.parts),
            None => vec![],
        };
        for (i, c) in self.classes.iter().enumerate() {
            v.push(lib.get(*c, i + 1));
        }
        v
    }
}

/// The reference: the flat list of entries and the number of entries after each batch.
pub struct Expected<'a> {
    pub flat: Vec<&'a Entry>,
    pub ends: Vec<usize>,
}

pub fn expected(batches: &[Arc<Built>]) -> Expected<'_> {
    let mut flat = vec![];
    let mut ends = vec![];
    for b in batches {
        flat.extend(b.entries.iter());
        ends.push(flat.len());
    }
    Expected { flat, ends }
}

////////////////////////////////////////////// options /////////////////////////////////////////////

/// "default": 2 MiB buffers; "tiny": read buffer 61 bytes, write buffer 13 bytes (every refill
/// and every seek of the reader lands in the middle of something).
pub fn options(kind: &str) -> LogOptions {
    match kind {
        "default" | "file" => LogOptions::default(),
        "tiny" => {
            let (o, free) = LogOptions::from_arguments_relaxed(
                "verif",
                &["--write-buffer", "13", "--read-buffer", "61"],
            );
            assert!(free.is_empty());
            o
        }
        _ => panic!("no option row {kind}"),
    }
}

pub fn options_rollover(limit: u64) -> LogOptions {
    let l = limit.to_string();
    let (o, free) = LogOptions::from_arguments_relaxed("verif", &["--rollover-size", &l]);
    assert!(free.is_empty());
    o
}

/// The machine-readable code of an SError rendering, or a shortened rendering.
pub fn err_code(e: &str) -> String {
    if let Some(i) = e.find("(code ") {
        let rest = &e[i + 6..];
        if let Some(j) = rest.find(')') {
            let code = rest[..j].trim();
            if code == "io-error" || code == "system-error" {
                if let Some(k) = e.find("(kind ") {
                    let r2 = &e[k + 6..];
                    if let Some(l) = r2.find(')') {
                        return format!("{code}/{}", r2[..l].trim());
                    }
                }
            }
            return code.to_string();
        }
    }
    let mut s = String::new();
    for c in e.chars().take(80) {
        if c.is_ascii_digit() {
            if !s.ends_with('#') {
                s.push('#');
            }
        } else if c.is_whitespace() {
            s.push(' ');
        } else {
            s.push(c);
        }
    }
    s
}

/////////////////////////////////////////////// writer //////////////////////////////////////////////

pub struct Written {
    pub bytes: Vec<u8>,
    /// LogBuilder::approximate_size after each append
    pub claimed_ends: Vec<u64>,
    /// which batches were accepted
    pub appended: Vec<bool>,
    pub sealed_setsum: Option<Setsum>,
    pub final_size: u64,
    pub findings: Vec<Finding>,
    pub calls: u64,
    pub panic: Option<String>,
}

struct Drive {
    claimed_ends: Vec<u64>,
    appended: Vec<bool>,
    findings: Vec<Finding>,
    calls: u64,
}

/// Append the batches; `may_reject[i]` says a refusal of batch i is legitimate (rollover).
fn drive<W: sst::log::Write>(
    b: &mut LogBuilder<W>,
    batches: &[Arc<Built>],
    may_reject: &[bool],
    d: &mut Drive,
) {
    for (i, batch) in batches.iter().enumerate() {
        let before = b.approximate_size();
        d.calls += 1;
        match b.append(&batch.wb) {
            Ok(()) => {
                d.appended.push(true);
                d.claimed_ends.push(b.approximate_size() as u64);
            }
            Err(e) => {
                d.appended.push(false);
                d.claimed_ends.push(before as u64);
                let code = err_code(&e.to_string());
                if !may_reject.get(i).copied().unwrap_or(false) {
                    d.findings.push((
                        format!("c12:builder:legal-batch-rejected:{code}"),
                        format!(
                            "append of batch {i} ({}, {} bytes) at offset {before} was refused: {e}",
                            batch.class.name(),
                            batch.size
                        ),
                    ));
                }
                if b.approximate_size() != before {
                    d.findings.push((
                        "c12:builder:rejected-append-wrote-bytes".into(),
                        format!(
                            "a refused append moved the size from {before} to {}",
                            b.approximate_size()
                        ),
                    ));
                }
            }
        }
    }
}

pub fn write_mem(opts: &LogOptions, batches: &[Arc<Built>], may_reject: &[bool]) -> Written {
    let cap: usize = batches.iter().map(|b| b.size + 64).sum();
    let mut buf: Vec<u8> = Vec::with_capacity(cap);
    let mut d = Drive {
        claimed_ends: vec![],
        appended: vec![],
        findings: vec![],
        calls: 0,
    };
    let res = vcore::catch(|| -> Result<(u64, Setsum), String> {
        let mut b = LogBuilder::from_write(opts.clone(), &mut buf).map_err(|e| e.to_string())?;
        drive(&mut b, batches, may_reject, &mut d);
        let fs = b.approximate_size() as u64;
        let (s, _) = b.seal().map_err(|e| e.to_string())?;
        Ok((fs, s))
    });
    let mut w = Written {
        bytes: buf,
        claimed_ends: d.claimed_ends,
        appended: d.appended,
        sealed_setsum: None,
        final_size: 0,
        findings: d.findings,
        calls: d.calls + 2,
        panic: None,
    };
    match res {
        Ok(Ok((fs, s))) => {
            w.final_size = fs;
            w.sealed_setsum = Some(s);
        }
        Ok(Err(e)) => w.findings.push((
            format!("c12:builder:seal-error:{}", err_code(&e)),
            format!("from_write / seal failed: {e}"),
        )),
        Err(p) => w.panic = Some(p),
    }
    w
}

/// The same through a real file: LogBuilder::new, appends, fsync, seal.
pub fn write_file(
    opts: &LogOptions,
    path: &std::path::Path,
    batches: &[Arc<Built>],
) -> Written {
    let _ = std::fs::remove_file(path);
    let mut d = Drive {
        claimed_ends: vec![],
        appended: vec![],
        findings: vec![],
        calls: 0,
    };
    let res = vcore::catch(|| -> Result<(u64, Setsum), String> {
        let mut b = LogBuilder::new(opts.clone(), path).map_err(|e| e.to_string())?;
        drive(&mut b, batches, &[], &mut d);
        b.fsync().map_err(|e| e.to_string())?;
        let fs = b.approximate_size() as u64;
        let (s, _) = b.seal().map_err(|e| e.to_string())?;
        Ok((fs, s))
    });
    let mut w = Written {
        bytes: std::fs::read(path).unwrap_or_default(),
        claimed_ends: d.claimed_ends,
        appended: d.appended,
        sealed_setsum: None,
        final_size: 0,
        findings: d.findings,
        calls: d.calls + 3,
        panic: None,
    };
    match res {
        Ok(Ok((fs, s))) => {
            w.final_size = fs;
            w.sealed_setsum = Some(s);
        }
        Ok(Err(e)) => w.findings.push((
            format!("c12:builder:seal-error:{}", err_code(&e)),
            format!("new / fsync / seal failed: {e}"),
        )),
        Err(p) => w.panic = Some(p),
    }
    w
}

/////////////////////////////////////////////// reader //////////////////////////////////////////////

#[derive(Clone, Debug, PartialEq, Eq, Hash)]
pub enum ReadEnd {
    Clean,
    Err(String),
    Panic(String),
    /// the reader kept producing entries beyond everything that was appended
    Runaway,
}

#[derive(Clone, Debug)]
pub struct ReadResult {
    /// number of entries produced that equal the expected list, position by position
    pub matched: usize,
    /// first entry that differs: ("duplicate-entry" | "missing-entries" | "invented-entry" |
    /// "extra-entry", rendering)
    pub mismatch: Option<(&'static str, String)>,
    pub end: ReadEnd,
    pub calls: u64,
    pub max_alloc: usize,
}

/// Run the real LogIterator over `reader` and compare with the expected entry list as it goes.
pub fn read_compare<R: Read + Seek>(opts: &LogOptions, reader: R, exp: &[&Entry]) -> ReadResult {
    let mut matched = 0usize;
    let mut mismatch = None;
    let mut calls = 0u64;
    alloc::reset_max();
    let res = vcore::catch(|| -> ReadEnd {
        let mut it = match LogIterator::from_reader(opts.clone(), reader) {
            Ok(it) => it,
            Err(e) => return ReadEnd::Err(err_code(&e.to_string())),
        };
        loop {
            calls += 1;
            if calls > exp.len() as u64 + 4 {
                return ReadEnd::Runaway;
            }
            match it.next() {
                Ok(Some(kvr)) => {
                    if mismatch.is_some() {
                        continue;
                    }
                    let same = matched < exp.len() && {
                        let e = exp[matched];
                        e.key == kvr.key && e.ts == kvr.timestamp && e.value.as_deref() == kvr.value
                    };
                    if same {
                        matched += 1;
                    } else {
                        let got = Entry {
                            key: kvr.key.to_vec(),
                            ts: kvr.timestamp,
                            value: kvr.value.map(|v| v.to_vec()),
                        };
                        let kind = if matched >= exp.len() && !exp.iter().any(|e| **e == got) {
                            "invented-entry"
                        } else if let Some(i) = exp.iter().position(|e| **e == got) {
                            if i < matched {
                                "duplicate-entry"
                            } else if i > matched {
                                "missing-entries"
                            } else {
                                "extra-entry"
                            }
                        } else {
                            "invented-entry"
                        };
                        mismatch = Some((kind, got.show()));
                    }
                }
                Ok(None) => return ReadEnd::Clean,
                Err(e) => return ReadEnd::Err(err_code(&e.to_string())),
            }
        }
    });
    let max_alloc = alloc::max_req();
    ReadResult {
        matched,
        mismatch,
        end: match res {
            Ok(e) => e,
            Err(p) => ReadEnd::Panic(p),
        },
        calls,
        max_alloc,
    }
}

pub fn read_mem(opts: &LogOptions, bytes: &[u8], exp: &[&Entry]) -> ReadResult {
    read_compare(opts, Cursor::new(bytes), exp)
}

pub fn short_panic(p: &str) -> String {
    let mut s = String::new();
    for c in p.chars().take(70) {
        if c.is_ascii_digit() {
            if !s.ends_with('#') {
                s.push('#');
            }
        } else {
            s.push(c);
        }
    }
    s
}

/////////////////////////////////////////////// layout //////////////////////////////////////////////

#[derive(Clone, Copy, Debug, PartialEq, Eq, Hash)]
pub enum Kind {
    Whole,
    First,
    Second,
}

#[derive(Clone, Debug)]
pub struct Frame {
    pub off: u64,
    /// header bytes including the length byte
    pub hdr: u64,
    pub kind: Kind,
    pub size: u64,
    pub end: u64,
}

#[derive(Clone, Debug, Default)]
pub struct Layout {
    pub frames: Vec<Frame>,
    /// zero padding [from, to)
    pub pads: Vec<(u64, u64)>,
    /// per batch: (first frame index, last frame index, offset where the batch's region begins
    /// -- the end of the previous batch --, end offset)
    pub batches: Vec<(usize, usize, u64, u64)>,
}

fn varint(b: &[u8], i: &mut usize) -> Option<u64> {
    let mut x = 0u64;
    let mut shift = 0;
    loop {
        let c = *b.get(*i)?;
        *i += 1;
        x |= ((c & 0x7f) as u64) << shift;
        if c < 128 {
            return Some(x);
        }
        shift += 7;
        if shift > 63 {
            return None;
        }
    }
}

/// Independent parser of an intact log file: frames, padding and the frames of each batch.
pub fn parse_layout(bytes: &[u8]) -> Result<Layout, String> {
    let len = bytes.len() as u64;
    let mut l = Layout::default();
    let mut o = 0u64;
    let mut open_first: Option<usize> = None;
    let mut batch_start = 0u64;
    while o < len {
        let hs = bytes[o as usize] as u64;
        if hs == 0 {
            let nb = (o / BLOCK + 1) * BLOCK;
            if nb - o > HEADER_MAX {
                return Err("zero-length-byte-far-from-boundary".into());
            }
            let to = nb.min(len);
            if bytes[o as usize..to as usize].iter().any(|b| *b != 0) {
                return Err("padding-not-zero".into());
            }
            l.pads.push((o, to));
            o = to;
            continue;
        }
        if hs > HEADER_MAX {
            return Err("header-longer-than-HEADER_MAX".into());
        }
        if o + 1 + hs > len {
            return Err("header-runs-past-end".into());
        }
        let h = &bytes[(o + 1) as usize..(o + 1 + hs) as usize];
        let (mut size, mut disc, mut crc) = (None, None, None);
        let mut i = 0usize;
        while i < h.len() {
            let tag = varint(h, &mut i).ok_or("bad-header-tag")?;
            match (tag >> 3, tag & 7) {
                (10, 0) => size = varint(h, &mut i),
                (11, 0) => disc = varint(h, &mut i),
                (12, 5) => {
                    if i + 4 > h.len() {
                        return Err("bad-header-crc".into());
                    }
                    crc = Some(u32::from_le_bytes([h[i], h[i + 1], h[i + 2], h[i + 3]]));
                    i += 4;
                }
                _ => return Err("unknown-header-field".into()),
            }
        }
        let _ = crc;
        let size = size.unwrap_or(0);
        let kind = match disc.unwrap_or(0) {
            1 => Kind::Whole,
            2 => Kind::First,
            3 => Kind::Second,
            _ => return Err("bad-discriminant".into()),
        };
        let end = o + 1 + hs + size;
        if end > len {
            return Err("frame-runs-past-end".into());
        }
        let idx = l.frames.len();
        l.frames.push(Frame {
            off: o,
            hdr: 1 + hs,
            kind,
            size,
            end,
        });
        match (kind, open_first) {
            (Kind::Whole, None) => {
                l.batches.push((idx, idx, batch_start, end));
                batch_start = end;
            }
            (Kind::First, None) => {
                if end / BLOCK != o / BLOCK && end % BLOCK != 0 {
                    return Err("first-frame-crosses-boundary".into());
                }
                open_first = Some(idx);
            }
            (Kind::Second, Some(f)) => {
                if o % BLOCK != 0 {
                    return Err("second-frame-not-at-boundary".into());
                }
                l.batches.push((f, idx, batch_start, end));
                batch_start = end;
                open_first = None;
            }
            (Kind::Second, None) => return Err("second-without-first".into()),
            (_, Some(_)) => return Err("first-without-second".into()),
        }
        o = end;
    }
    if open_first.is_some() {
        return Err("first-without-second".into());
    }
    Ok(l)
}

impl Layout {
    /// How batch `i` sits in the file.
    pub fn batch_kind(&self, i: usize) -> &'static str {
        let Some(&(f, t, start, _)) = self.batches.get(i) else {
            return "batch-unknown";
        };
        let padded = self.frames[f].off != start;
        match (f == t, padded) {
            (true, false) => "batch-whole",
            (true, true) => "batch-whole-after-padding",
            (false, false) => "batch-split-at-boundary",
            (false, true) => "batch-split-after-padding",
        }
    }

    /// Class of the space left in the block where batch `i` begins.
    pub fn rem_class(&self, i: usize) -> &'static str {
        match self.batches.get(i) {
            Some(&(_, _, start, _)) => rem_class_at(start),
            None => "r?",
        }
    }

    /// Where a truncation length falls.
    pub fn cut_position(&self, cut: u64) -> &'static str {
        for (i, f) in self.frames.iter().enumerate() {
            if cut == f.off {
                return if f.kind == Kind::Second {
                    if i > 0 && self.frames[i - 1].end == f.off {
                        "at-end-of-first-frame"
                    } else {
                        "at-boundary-after-padding-before-second-frame"
                    }
                } else {
                    "at-batch-boundary"
                };
            }
            if cut > f.off && cut < f.off + f.hdr {
                return match f.kind {
                    Kind::Whole => "in-header-of-whole-frame",
                    Kind::First => "in-header-of-first-frame",
                    Kind::Second => "in-header-of-second-frame",
                };
            }
            if cut >= f.off + f.hdr && cut < f.end {
                return match f.kind {
                    Kind::Whole => "in-data-of-whole-frame",
                    Kind::First => "in-data-of-first-frame",
                    Kind::Second => "in-data-of-second-frame",
                };
            }
            if cut == f.end {
                let next_is_frame = self.frames.get(i + 1).map(|n| n.off == cut).unwrap_or(false);
                if next_is_frame {
                    continue;
                }
                return match f.kind {
                    Kind::First => "at-end-of-first-frame",
                    _ => "at-batch-boundary",
                };
            }
        }
        for (i, (a, b)) in self.pads.iter().enumerate() {
            if cut > *a && cut < *b {
                let _ = i;
                let after_first = self
                    .frames
                    .iter()
                    .any(|f| f.end == *a && f.kind == Kind::First);
                return if after_first {
                    "in-padding-after-first-frame"
                } else {
                    "in-padding-after-batch"
                };
            }
            if cut == *b {
                return "at-boundary-after-padding";
            }
        }
        if cut == 0 {
            return "at-batch-boundary";
        }
        "unclassified"
    }

    /// Number of batches that lie wholly within the first `cut` bytes.
    pub fn batches_within(&self, cut: u64) -> usize {
        self.batches.iter().take_while(|b| b.3 <= cut).count()
    }
}

pub fn rem_class_at(start: u64) -> &'static str {
    let rem = BLOCK - start % BLOCK;
    if start % BLOCK == 0 {
        if start == 0 { "at-file-start" } else { "r=0" }
    } else if rem < HEADER_MAX {
        "r<HEADER_MAX"
    } else if rem == HEADER_MAX {
        "r==HEADER_MAX"
    } else if rem <= HEADER_MAX + 64 {
        "r>HEADER_MAX"
    } else {
        "r>>HEADER_MAX"
    }
}

////////////////////////////////////////// check: sequence //////////////////////////////////////////

pub struct CaseResult {
    pub findings: Vec<Finding>,
    /// structural summary of what was observed (hashed into `outcomes`)
    pub outcome: String,
    pub nontrivial: bool,
    pub calls: u64,
    pub notes: Vec<&'static str>,
}

fn batch_of(ends: &[usize], entry_idx: usize) -> usize {
    ends.iter().position(|e| *e > entry_idx).unwrap_or(ends.len().saturating_sub(1))
}

/// Checks on an intact log: accounting, setsum, layout, read-back.
pub fn check_intact(
    opts: &LogOptions,
    batches: &[Arc<Built>],
    w: &Written,
    medium: &str,
) -> CaseResult {
    let mut findings = w.findings.clone();
    let mut notes = vec![];
    let mut calls = w.calls;
    if let Some(p) = &w.panic {
        findings.push((
            format!("c12:builder:panic:{}", short_panic(p)),
            format!("LogBuilder panicked: {p}"),
        ));
        return CaseResult {
            findings,
            outcome: "builder-panic".into(),
            nontrivial: true,
            calls,
            notes,
        };
    }
    let appended: Vec<Arc<Built>> = batches
        .iter()
        .zip(w.appended.iter())
        .filter(|(_, a)| **a)
        .map(|(b, _)| Arc::clone(b))
        .collect();
    let exp = expected(&appended);
    // accounting
    if w.final_size != w.bytes.len() as u64 {
        findings.push((
            "c12:builder:size-accounting-mismatch".into(),
            format!(
                "approximate_size() = {} but {} bytes reached the {medium}",
                w.final_size,
                w.bytes.len()
            ),
        ));
    }
    // setsum
    let mut want = Setsum::default();
    for b in appended.iter() {
        want += b.setsum;
    }
    let rejected_entry = appended.iter().any(|b| b.had_rejection);
    let rejected_append = w.appended.iter().any(|a| !*a);
    if let Some(got) = w.sealed_setsum {
        if got != want {
            let why = match (rejected_entry, rejected_append) {
                (true, _) => "after-rejected-entry",
                (false, true) => "after-rejected-append",
                _ => "plain",
            };
            findings.push((
                format!("c12:builder:setsum-mismatch:{why}"),
                format!(
                    "seal() returned setsum {} but the entries in the log sum to {}",
                    got.hexdigest(),
                    want.hexdigest()
                ),
            ));
        }
    }
    // layout by the independent parser
    let layout = match parse_layout(&w.bytes) {
        Ok(l) => Some(l),
        Err(e) => {
            findings.push((
                format!("c12:builder:malformed-file:{e}"),
                format!("the independent frame parser cannot walk the {medium} log: {e}"),
            ));
            None
        }
    };
    let mut kinds: Vec<&'static str> = vec![];
    if let Some(l) = &layout {
        if l.batches.len() != appended.len() {
            findings.push((
                "c12:builder:malformed-file:batch-count".into(),
                format!("{} batches appended, {} in the file", appended.len(), l.batches.len()),
            ));
        }
        let claimed: Vec<u64> = w
            .claimed_ends
            .iter()
            .zip(w.appended.iter())
            .filter(|(_, a)| **a)
            .map(|(e, _)| *e)
            .collect();
        for (i, b) in l.batches.iter().enumerate() {
            kinds.push(l.batch_kind(i));
            let data: u64 = l.frames[b.0..=b.1].iter().map(|f| f.size).sum();
            if let Some(a) = appended.get(i) {
                if data != a.size as u64 {
                    findings.push((
                        format!("c12:builder:malformed-file:batch-size:{}", l.batch_kind(i)),
                        format!("batch {i} has {} bytes, its frames hold {data}", a.size),
                    ));
                }
            }
            if let Some(c) = claimed.get(i) {
                if *c != b.3 {
                    findings.push((
                        format!("c12:builder:size-accounting-mismatch:{}", l.batch_kind(i)),
                        format!("after batch {i} approximate_size() = {c}, the batch ends at {}", b.3),
                    ));
                }
            }
            if b.0 != b.1 && l.frames[b.1].end > (l.frames[b.1].off / BLOCK + 1) * BLOCK {
                notes.push("second-frame-crosses-next-boundary");
            }
            if b.0 != b.1 && l.frames[b.0].size == 0 {
                notes.push("first-frame-empty");
            }
        }
    }
    // read back
    let rr = read_mem(opts, &w.bytes, &exp.flat);
    calls += rr.calls + 1;
    let failing_batch = batch_of(&exp.ends, rr.matched);
    let (kind, rc) = match &layout {
        Some(l) => (l.batch_kind(failing_batch), l.rem_class(failing_batch)),
        None => ("batch-unknown", "r?"),
    };
    if let Some((what, got)) = &rr.mismatch {
        findings.push((
            format!("c12:reader:{kind}:{what}:{rc}"),
            format!(
                "after {} correct entries the reader produced {got}; expected {}",
                rr.matched,
                exp.flat.get(rr.matched).map(|e| e.show()).unwrap_or("the end".into())
            ),
        ));
    } else {
        match &rr.end {
            ReadEnd::Clean => {
                if rr.matched != exp.flat.len() {
                    findings.push((
                        format!("c12:reader:{kind}:missing-entries:{rc}"),
                        format!(
                            "the reader ended cleanly after {} of {} entries (batch {failing_batch} missing)",
                            rr.matched,
                            exp.flat.len()
                        ),
                    ));
                }
            }
            ReadEnd::Err(code) => findings.push((
                format!("c12:reader:{kind}:error-on-intact-log:{code}:{rc}"),
                format!(
                    "the reader returned {code} on an intact log after {} of {} entries",
                    rr.matched,
                    exp.flat.len()
                ),
            )),
            ReadEnd::Panic(p) => findings.push((
                format!("c12:reader:{kind}:panic:{}:{rc}", short_panic(p)),
                format!("the reader panicked on an intact log: {p}"),
            )),
            ReadEnd::Runaway => findings.push((
                format!("c12:reader:{kind}:does-not-end:{rc}"),
                "the reader keeps producing entries".into(),
            )),
        }
    }
    if rr.max_alloc > ALLOC_LIMIT {
        findings.push((
            "c12:reader:unbounded-allocation-attempt:intact-log".into(),
            format!("a single allocation of {} bytes", rr.max_alloc),
        ));
    }
    let nontrivial = kinds.iter().any(|k| *k != "batch-whole");
    let outcome = format!(
        "{:?}|{:?}|{}|{:?}",
        kinds,
        rr.end,
        rr.mismatch.as_ref().map(|m| m.0).unwrap_or("-"),
        findings.iter().map(|f| f.0.as_str()).collect::<Vec<_>>()
    );
    CaseResult {
        findings,
        outcome,
        nontrivial,
        calls,
        notes,
    }
}

/// One sequence: filler leaving r bytes, then the batches of `classes`; written to memory
/// (or a file when opt == "file") and read back.
pub fn check_seq(
    lib: &Lib,
    filler: &[Arc<Built>],
    classes: &[Class],
    opt: &str,
    scratch: Option<&std::path::Path>,
) -> CaseResult {
    let mut batches: Vec<Arc<Built>> = filler.to_vec();
    for (i, c) in classes.iter().enumerate() {
        batches.push(lib.get(*c, i + 1));
    }
    let opts = options(opt);
    let w = write_mem(&opts, &batches, &[]);
    let mut res = check_intact(&opts, &batches, &w, "memory");
    // the filler must leave what it was built to leave (machinery self-check)
    if w.panic.is_none() && !filler.is_empty() {
        let want: u64 = filler.iter().map(|b| header_len(b.size as u64) + b.size as u64).sum();
        let got = w.claimed_ends[filler.len() - 1];
        assert_eq!(
            got, want,
            "machinery: the filler does not end where the independent header model says"
        );
    }
    if opt == "file" {
        let path = scratch.expect("a scratch path for the file medium");
        let wf = write_file(&opts, path, &batches);
        let rf = check_intact(&opts, &batches, &wf, "file");
        res.calls += rf.calls;
        for f in rf.findings {
            if !res.findings.iter().any(|x| x.0 == f.0) {
                res.findings.push((f.0, format!("(file) {}", f.1)));
            }
        }
        if wf.panic.is_none() && w.panic.is_none() && wf.bytes != w.bytes {
            res.findings.push((
                "c12:builder:file-differs-from-memory".into(),
                format!("file has {} bytes, memory has {} bytes", wf.bytes.len(), w.bytes.len()),
            ));
        }
        // read through LogIterator::new
        let appended: Vec<Arc<Built>> = batches
            .iter()
            .zip(wf.appended.iter())
            .filter(|(_, a)| **a)
            .map(|(b, _)| Arc::clone(b))
            .collect();
        let exp = expected(&appended);
        if wf.panic.is_none() {
            match std::fs::File::open(path) {
                Ok(f) => {
                    let rr = read_compare(&opts, f, &exp.flat);
                    res.calls += rr.calls;
                    if rr.mismatch.is_some() || rr.end != ReadEnd::Clean || rr.matched != exp.flat.len() {
                        res.findings.push((
                            "c12:reader:file-read-differs".into(),
                            format!(
                                "reading the file gave {} of {} entries, mismatch {:?}, end {:?}",
                                rr.matched,
                                exp.flat.len(),
                                rr.mismatch,
                                rr.end
                            ),
                        ));
                    }
                }
                Err(e) => panic!("machinery: cannot open {path:?}: {e}"),
            }
        }
        res.outcome += "|file";
        let _ = std::fs::remove_file(path);
    }
    res
}

///////////////////////////////////////// check: truncation /////////////////////////////////////////

/// An intact log image with its reference data, shared by all truncations of it.
pub struct Image {
    pub spec: LogSpec,
    pub batches: Vec<Arc<Built>>,
    pub bytes: Vec<u8>,
    pub layout: Layout,
}

impl Image {
    /// Build; Err carries findings when the intact log is already wrong (reported by the
    /// sequence checks -- truncation needs a well-formed start).
    pub fn build(spec: &LogSpec, lib: &Lib) -> Result<Image, Vec<Finding>> {
        let batches = spec.assemble(lib);
        let opts = options("default");
        let w = write_mem(&opts, &batches, &[]);
        let res = check_intact(&opts, &batches, &w, "memory");
        let hard: Vec<Finding> = res
            .findings
            .into_iter()
            .filter(|f| !f.0.starts_with("c12:builder:setsum-mismatch"))
            .collect();
        if !hard.is_empty() {
            return Err(hard);
        }
        let layout = parse_layout(&w.bytes).map_err(|e| vec![(format!("c12:builder:malformed-file:{e}"), e)])?;
        Ok(Image {
            spec: spec.clone(),
            batches,
            bytes: w.bytes,
            layout,
        })
    }

    pub fn size_class(&self) -> &'static str {
        if self.spec.r.is_some() { "straddling" } else { "small" }
    }
}

pub struct CutResult {
    pub findings: Vec<Finding>,
    pub outcome: String,
    pub calls: u64,
    pub max_alloc: usize,
    /// batches returned
    pub prefix: usize,
    pub clean: bool,
}

/// Judge what the reader made of a file: a prefix of whole batches and then end or error.
/// `complete` = number of batches wholly inside the file; `need_clean` demands Ok(None).
fn judge_prefix(
    tag: &str,
    pos: &str,
    rc: &str,
    rr: &ReadResult,
    exp: &Expected,
    complete: usize,
    need_clean: bool,
    cut: u64,
    len: u64,
) -> (Vec<Finding>, usize) {
    let mut findings = vec![];
    let suffix = format!("{pos}:{rc}");
    if let Some((what, got)) = &rr.mismatch {
        findings.push((
            format!("c12:{tag}:{what}:{suffix}"),
            format!(
                "cut at {cut} of {len}: after {} correct entries the reader produced {got}, which is not the next appended entry",
                rr.matched
            ),
        ));
    }
    // whole batches only
    let prefix = exp.ends.iter().take_while(|e| **e <= rr.matched).count();
    let at_boundary = rr.matched == 0 || exp.ends.contains(&rr.matched);
    if !at_boundary {
        findings.push((
            format!("c12:{tag}:partial-batch-returned:{suffix}"),
            format!(
                "cut at {cut} of {len}: the reader returned {} entries, which ends inside batch {prefix} ({} entries)",
                rr.matched,
                exp.ends.get(prefix).copied().unwrap_or(0) - if prefix == 0 { 0 } else { exp.ends[prefix - 1] }
            ),
        ));
    }
    if prefix > complete {
        findings.push((
            format!("c12:{tag}:batch-beyond-cut-returned:{suffix}"),
            format!("cut at {cut} of {len}: {prefix} batches returned but only {complete} fit"),
        ));
    }
    if prefix < complete && at_boundary && rr.mismatch.is_none() {
        findings.push((
            format!("c12:{tag}:complete-batch-lost:{suffix}"),
            format!(
                "cut at {cut} of {len}: {complete} batches lie wholly before the cut but only {prefix} were returned (end: {:?})",
                rr.end
            ),
        ));
    }
    match &rr.end {
        ReadEnd::Clean => {}
        ReadEnd::Err(code) => {
            if need_clean {
                findings.push((
                    format!("c12:{tag}:error-instead-of-clean-end:{code}:{suffix}"),
                    format!("cut at {cut} of {len}: the reader returned {code}"),
                ));
            }
        }
        ReadEnd::Panic(p) => findings.push((
            format!("c12:{tag}:panic:{}:{suffix}", short_panic(p)),
            format!("cut at {cut} of {len}: the reader panicked: {p}"),
        )),
        ReadEnd::Runaway => findings.push((
            format!("c12:{tag}:does-not-end:{suffix}"),
            format!("cut at {cut} of {len}: the reader keeps producing entries"),
        )),
    }
    if rr.max_alloc > ALLOC_LIMIT {
        findings.push((
            format!("c12:{tag}:unbounded-allocation-attempt:{suffix}"),
            format!(
                "cut at {cut} of {len}: a single allocation of {} bytes was requested",
                rr.max_alloc
            ),
        ));
    }
    (findings, prefix)
}

/// Read the first `cut` bytes of the image with the real reader.
pub fn check_cut(img: &Image, exp: &Expected, opts: &LogOptions, cut: u64) -> CutResult {
    let len = img.bytes.len() as u64;
    let rr = read_mem(opts, &img.bytes[..cut as usize], &exp.flat);
    let pos = img.layout.cut_position(cut);
    let complete = img.layout.batches_within(cut);
    let rc = if img.spec.r.is_some() {
        // the class of the batch the cut falls into
        let b = complete.min(img.layout.batches.len().saturating_sub(1));
        img.layout.rem_class(b)
    } else {
        "small-log"
    };
    let (findings, prefix) = judge_prefix("truncation", pos, rc, &rr, exp, complete, cut == len, cut, len);
    let endk = match &rr.end {
        ReadEnd::Clean => "clean".to_string(),
        ReadEnd::Err(c) => format!("err:{c}"),
        ReadEnd::Panic(_) => "panic".into(),
        ReadEnd::Runaway => "runaway".into(),
    };
    let outcome = format!(
        "{}|{pos}|{rc}|{endk}|{}",
        img.size_class(),
        if prefix == complete { "all-complete" } else { "fewer" }
    );
    CutResult {
        findings,
        outcome,
        calls: rr.calls + 1,
        max_alloc: rr.max_alloc,
        prefix,
        clean: rr.end == ReadEnd::Clean,
    }
}

/// truncate_final_partial_frame on a file holding the first `cut` bytes of the image (the caller
/// has set the file length); if it names an offset, cutting there must leave a log that reads as
/// a prefix of batches and then ends cleanly.
pub fn check_tfpf(
    img: &Image,
    exp: &Expected,
    opts: &LogOptions,
    path: &std::path::Path,
    cut: u64,
) -> CutResult {
    let len = img.bytes.len() as u64;
    let pos = img.layout.cut_position(cut);
    let complete = img.layout.batches_within(cut);
    let rc = if img.spec.r.is_some() {
        let b = complete.min(img.layout.batches.len().saturating_sub(1));
        img.layout.rem_class(b)
    } else {
        "small-log"
    };
    alloc::reset_max();
    let res = vcore::catch(|| sst::log::truncate_final_partial_frame(opts.clone(), path));
    let max_alloc = alloc::max_req();
    let mut findings = vec![];
    let mut calls = 1;
    let mut prefix = 0;
    let outcome;
    match res {
        Err(p) => {
            findings.push((
                format!("c12:truncate-partial:panic:{}:{pos}:{rc}", short_panic(&p)),
                format!("cut at {cut} of {len}: truncate_final_partial_frame panicked: {p}"),
            ));
            outcome = format!("tfpf|{pos}|panic");
        }
        Ok(Err(e)) => {
            outcome = format!("tfpf|{pos}|err:{}", err_code(&e.to_string()));
        }
        Ok(Ok(None)) => {
            outcome = format!("tfpf|{pos}|none");
        }
        Ok(Ok(Some(off))) => {
            if off > cut {
                findings.push((
                    format!("c12:truncate-partial:offset-beyond-file:{pos}:{rc}"),
                    format!("cut at {cut} of {len}: offset {off} is beyond the file"),
                ));
                outcome = format!("tfpf|{pos}|some-beyond");
            } else {
                let rr = read_mem(opts, &img.bytes[..off as usize], &exp.flat);
                calls += rr.calls + 1;
                let (f, p) = judge_prefix("truncate-partial", pos, rc, &rr, exp, complete, true, cut, len);
                prefix = p;
                findings.extend(f);
                outcome = format!(
                    "tfpf|{pos}|some|{}",
                    if off == cut { "no-op" } else { "shortens" }
                );
            }
        }
    }
    if max_alloc > ALLOC_LIMIT {
        findings.push((
            format!("c12:truncate-partial:unbounded-allocation-attempt:{pos}:{rc}"),
            format!("cut at {cut} of {len}: a single allocation of {max_alloc} bytes"),
        ));
    }
    CutResult {
        findings,
        outcome,
        calls,
        max_alloc,
        prefix,
        clean: true,
    }
}

////////////////////////////////////////// check: rollover //////////////////////////////////////////

/// A log whose rollover size is `delta` bytes away from the end of the last batch: with a
/// negative delta the last append must be refused, nothing written, the setsum unchanged.
pub fn check_rollover(lib: &Lib, classes: &[Class], delta: i64) -> CaseResult {
    let batches: Vec<Arc<Built>> = classes
        .iter()
        .enumerate()
        .map(|(i, c)| lib.get(*c, i + 1))
        .collect();
    let total: u64 = batches.iter().map(|b| header_len(b.size as u64) + b.size as u64).sum();
    let limit = (total as i64 + delta) as u64;
    let opts = options_rollover(limit);
    let mut may = vec![false; batches.len()];
    if delta < 0 {
        *may.last_mut().unwrap() = true;
    }
    let w = write_mem(&opts, &batches, &may);
    let mut res = check_intact(&opts, &batches, &w, "memory");
    if w.panic.is_none() {
        let last_ok = *w.appended.last().unwrap();
        if delta < 0 && last_ok {
            res.findings.push((
                "c12:builder:append-beyond-rollover-size-accepted".into(),
                format!("rollover size {limit}, the log grew to {}", w.final_size),
            ));
        }
        res.outcome += if last_ok { "|accepted" } else { "|refused" };
    }
    res
}
