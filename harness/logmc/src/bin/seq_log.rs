//! C12, sequential and truncation halves, on the real sst::log::{WriteBatch, LogBuilder,
//! LogIterator, truncate_final_partial_frame}.
//!
//!   seq_log --tier quick --out report.json --replay-dir replays
//!   seq_log --tier thorough --only seq,small,straddle,tfpf,rollover,file
//!   seq_log --replay replays/C12/....json
//!
//! Families (all exhaustive inside their stated domain, enumerated small to large):
//!   seq       filler leaving r bytes before the 1 MiB boundary (every r in 0..=rmax), then every
//!             sequence of following batches over the 12 size classes; written to memory with two
//!             option rows, read back; builder setsum and size accounting checked
//!   file      the same through LogBuilder::new / fsync / LogIterator::new on tmpfs (shorter sequences)
//!   small     every sequence of small batches: every truncation length, two option rows
//!   straddle  curated ~1 MiB logs that straddle the block boundary: quick = every length within
//!             4 KiB of a frame or block boundary plus every 4096th; thorough = every length
//!   tfpf      truncate_final_partial_frame at every length of the small logs and in windows of
//!             the straddling logs
//!   rollover  a rollover size one byte short of / exactly at / one byte beyond the last batch

use std::collections::BTreeSet;
use std::sync::Arc;

use logmc::logsub::{
    BLOCK, CaseResult, Class, Finding, HEADER_MAX, Image, Lib, LogSpec, SEQ_CLASSES, SMALL_CLASSES,
    build_batch, build_filler, check_cut, check_rollover, check_seq, check_tfpf, expected, options,
};
use vcore::{Args, Report, Scratch, Value, Violation, json, stable_hash};

const PROP: &str = "C12";
const CONFIRM_PER_SIG: u64 = 3;

/////////////////////////////////////////////// cases ///////////////////////////////////////////////

fn classes_json(c: &[Class]) -> Value {
    json!(c.iter().map(|c| c.name()).collect::<Vec<_>>())
}

fn classes_from(v: &Value) -> Vec<Class> {
    v.as_array()
        .map(|a| a.iter().map(|c| Class::from_name(c.as_str().unwrap())).collect())
        .unwrap_or_default()
}

/// Re-run one recorded case from scratch (also what --replay does).
fn run_case(case: &Value, lib: &Lib) -> Vec<Finding> {
    match case["kind"].as_str().unwrap_or("") {
        "seq" => {
            let filler = match case["r"].as_u64() {
                Some(r) => build_filler(r, 1),
                None => vec![],
            };
            let classes = classes_from(&case["classes"]);
            let opt = case["opt"].as_str().unwrap_or("default");
            let scratch = Scratch::new("log-replay");
            let p = scratch.sub("log");
            check_seq(lib, &filler, &classes, opt, Some(&p)).findings
        }
        "trunc" => {
            let spec = LogSpec::from_json(&case["log"]);
            let img = match Image::build(&spec, lib) {
                Ok(i) => i,
                Err(f) => return f,
            };
            let exp = expected(&img.batches);
            let opts = options(case["opt"].as_str().unwrap_or("default"));
            check_cut(&img, &exp, &opts, case["cut"].as_u64().unwrap()).findings
        }
        "tfpf" => {
            let spec = LogSpec::from_json(&case["log"]);
            let img = match Image::build(&spec, lib) {
                Ok(i) => i,
                Err(f) => return f,
            };
            let exp = expected(&img.batches);
            let cut = case["cut"].as_u64().unwrap();
            let scratch = Scratch::new("log-replay");
            let p = scratch.sub("log");
            std::fs::write(&p, &img.bytes[..cut as usize]).expect("write scratch log");
            check_tfpf(&img, &exp, &options("default"), &p, cut).findings
        }
        "rollover" => {
            let classes = classes_from(&case["classes"]);
            check_rollover(lib, &classes, case["delta"].as_i64().unwrap_or(0)).findings
        }
        "lib" => {
            let c = Class::from_name(case["class"].as_str().unwrap());
            build_batch(c, case["pos"].as_u64().unwrap_or(1) as usize).findings
        }
        k => panic!("unknown case kind {k:?}"),
    }
}

fn record(rep: &mut Report, lib: &Lib, f: &Finding, case: Value) {
    let n = rep.violation_sigs.get(&f.0).copied().unwrap_or(0);
    if n < CONFIRM_PER_SIG {
        // replay before report
        let again = run_case(&case, lib);
        rep.count("confirmation_replays", 1);
        if !again.iter().any(|g| g.0 == f.0) {
            rep.count("non_reproducible_findings", 1);
            return;
        }
    }
    rep.violation(Violation {
        property: PROP.into(),
        signature: f.0.clone(),
        detail: f.1.clone(),
        case,
    });
}

fn tally(rep: &mut Report, state: u64, res: &CaseResult) {
    rep.evaluations += 1;
    rep.traces_validated += 1;
    rep.transitions += res.calls;
    rep.states.insert(state);
    if res.nontrivial {
        rep.nontrivial.insert(state);
    }
    rep.outcomes.insert(stable_hash(&res.outcome));
    for n in res.notes.iter() {
        rep.count(&format!("note_{n}"), 1);
    }
}

/////////////////////////////////////////////// work ////////////////////////////////////////////////

enum Work {
    /// one r, one option row, every sequence of <= follow following batches
    Seq { r: Option<u64>, opt: &'static str, follow: usize },
    /// small logs: every truncation length (and truncate_final_partial_frame when `tfpf`)
    Small { specs: Vec<LogSpec>, tfpf: bool },
    /// truncation lengths of a straddling image
    Cuts { img: Arc<Image>, cuts: Vec<u64>, opt: &'static str },
    /// truncate_final_partial_frame on a straddling image, lengths in descending order
    Tfpf { img: Arc<Image>, cuts: Vec<u64> },
    Rollover,
    LibFindings,
}

fn all_sequences(alpha: &[Class], max_len: usize) -> Vec<Vec<Class>> {
    let mut out: Vec<Vec<Class>> = vec![vec![]];
    let mut level: Vec<Vec<Class>> = vec![vec![]];
    for _ in 0..max_len {
        let mut next = vec![];
        for s in level.iter() {
            for c in alpha {
                let mut t = s.clone();
                t.push(*c);
                next.push(t);
            }
        }
        out.extend(next.iter().cloned());
        level = next;
    }
    out
}

fn do_seq(lib: &Lib, rep: &mut Report, r: Option<u64>, opt: &'static str, follow: usize) {
    let filler = match r {
        Some(r) => build_filler(r, 1),
        None => vec![],
    };
    let scratch = if opt == "file" { Some(Scratch::new("log-seq")) } else { None };
    let path = scratch.as_ref().map(|s| s.sub("log"));
    for classes in all_sequences(&SEQ_CLASSES, follow) {
        let res = check_seq(lib, &filler, &classes, opt, path.as_deref());
        let state = stable_hash(&(r, &classes, opt));
        tally(rep, state, &res);
        rep.count(&format!("seq_cases_{opt}"), 1);
        if rep.evaluations % 1499 == 1 {
            rep.sample(json!({"kind": "seq", "r": r, "classes": classes_json(&classes), "opt": opt, "observed": res.outcome}));
        }
        for f in res.findings.iter() {
            let case = json!({"kind": "seq", "r": r, "classes": classes_json(&classes), "opt": opt});
            record(rep, lib, f, case);
        }
    }
}

/// Counters are summed when the per-thread reports are merged, so the largest allocation is
/// reported as a histogram over power-of-two buckets.
fn alloc_bucket(n: usize) -> String {
    let b = n.max(1).next_power_of_two();
    if b >= 1 << 20 {
        format!("le_{}MiB", b >> 20)
    } else {
        format!("le_{}KiB", (b >> 10).max(1))
    }
}

fn cut_state(img: &Image, cut: u64) -> (u64, bool) {
    let pos = img.layout.cut_position(cut);
    let complete = img.layout.batches_within(cut);
    (
        stable_hash(&(&img.spec, pos, complete)),
        pos != "at-batch-boundary",
    )
}

fn do_cut(lib: &Lib, rep: &mut Report, img: &Image, exp: &logmc::logsub::Expected, cut: u64, opt: &'static str) {
    let opts = options(opt);
    let res = check_cut(img, exp, &opts, cut);
    rep.evaluations += 1;
    rep.traces_validated += 1;
    rep.transitions += res.calls;
    let (st, nt) = cut_state(img, cut);
    rep.states.insert(st);
    if nt {
        rep.nontrivial.insert(st);
    }
    rep.outcomes.insert(stable_hash(&res.outcome));
    rep.count(&format!("outcome {}", res.outcome), 1);
    rep.count(&format!("reads_whose_largest_allocation_is_{}", alloc_bucket(res.max_alloc)), 1);
    rep.count(if res.clean { "cuts_ending_cleanly" } else { "cuts_ending_in_error" }, 1);
    if res.max_alloc > (8 << 20) {
        rep.count("reads_with_an_allocation_above_8MiB", 1);
        rep.notes.entry("first_read_with_an_allocation_above_8MiB".into()).or_insert(
            json!({"kind": "trunc", "log": img.spec.to_json(), "cut": cut, "opt": opt, "bytes": res.max_alloc}),
        );
    }
    if rep.evaluations % 49999 == 1 {
        rep.sample(json!({"kind": "trunc", "log": img.spec.to_json(), "cut": cut, "opt": opt, "observed": res.outcome, "batches_returned": res.prefix}));
    }
    for f in res.findings.iter() {
        let case = json!({"kind": "trunc", "log": img.spec.to_json(), "cut": cut, "opt": opt});
        record(rep, lib, f, case);
    }
}

fn do_tfpf(
    lib: &Lib,
    rep: &mut Report,
    img: &Image,
    exp: &logmc::logsub::Expected,
    path: &std::path::Path,
    cuts_desc: &[u64],
) {
    std::fs::write(path, &img.bytes).expect("write scratch log");
    let file = std::fs::OpenOptions::new().write(true).open(path).expect("open scratch log");
    let opts = options("default");
    for &cut in cuts_desc {
        file.set_len(cut).expect("ftruncate");
        let res = check_tfpf(img, exp, &opts, path, cut);
        rep.evaluations += 1;
        rep.traces_validated += 1;
        rep.transitions += res.calls;
        let (st, nt) = cut_state(img, cut);
        let st = stable_hash(&(st, "tfpf"));
        rep.states.insert(st);
        if nt {
            rep.nontrivial.insert(st);
        }
        rep.outcomes.insert(stable_hash(&res.outcome));
        rep.count(&format!("outcome {}|{}", res.outcome, img.size_class()), 1);
        rep.count("tfpf_calls", 1);
        if res.outcome.contains("|some") {
            rep.count("tfpf_named_an_offset", 1);
        }
        rep.count(&format!("tfpf_calls_whose_largest_allocation_is_{}", alloc_bucket(res.max_alloc)), 1);
        for f in res.findings.iter() {
            let case = json!({"kind": "tfpf", "log": img.spec.to_json(), "cut": cut});
            record(rep, lib, f, case);
        }
    }
}

fn do_small(lib: &Lib, rep: &mut Report, specs: &[LogSpec], tfpf: bool, scratch: &Scratch) {
    for spec in specs {
        let img = match Image::build(spec, lib) {
            Ok(i) => i,
            Err(fs) => {
                for f in fs.iter() {
                    let case = json!({"kind": "seq", "r": Value::Null, "classes": classes_json(&spec.classes), "opt": "default"});
                    record(rep, lib, f, case);
                }
                rep.count("small_logs_not_well_formed", 1);
                continue;
            }
        };
        rep.count("small_logs", 1);
        let exp = expected(&img.batches);
        let len = img.bytes.len() as u64;
        for cut in 0..=len {
            do_cut(lib, rep, &img, &exp, cut, "default");
            do_cut(lib, rep, &img, &exp, cut, "tiny");
        }
        if tfpf {
            let cuts: Vec<u64> = (0..=len).rev().collect();
            do_tfpf(lib, rep, &img, &exp, &scratch.sub("small"), &cuts);
        }
    }
}

/// Quick-tier truncation lengths of a straddling image: within `w` bytes of every frame start,
/// frame end and block boundary, plus every 4096th length, plus both ends.
fn window_cuts(img: &Image, w: u64, stride: Option<u64>) -> Vec<u64> {
    let len = img.bytes.len() as u64;
    let mut s = BTreeSet::new();
    let mut centres = vec![0, len];
    for f in img.layout.frames.iter() {
        centres.push(f.off);
        centres.push(f.off + f.hdr);
        centres.push(f.end);
    }
    let mut b = BLOCK;
    while b <= len + BLOCK {
        centres.push(b);
        b += BLOCK;
    }
    for c in centres {
        for x in c.saturating_sub(w)..=(c + w).min(len) {
            s.insert(x);
        }
    }
    if let Some(st) = stride {
        let mut x = 0;
        while x <= len {
            s.insert(x);
            x += st;
        }
    }
    s.into_iter().collect()
}

fn straddle_specs() -> Vec<LogSpec> {
    use Class::*;
    let mk = |r: u64, parts: usize, c: &[Class]| LogSpec {
        r: Some(r),
        parts,
        classes: c.to_vec(),
    };
    vec![
        mk(0, 3, &[B21, Multi]),            // filler ends exactly at the boundary
        mk(HEADER_MAX, 2, &[B20, Min]),      // r == HEADER_MAX: padding, then a whole frame
        mk(HEADER_MAX + 1, 3, &[Multi, Min]), // smallest split: one byte in the first frame
        mk(40, 2, &[K4096, B19]),            // split with 21 bytes in the first frame
        mk(5, 4, &[K4096, Multi]),           // r < HEADER_MAX: padding
        mk(30, 2, &[Min, F21, Multi]),       // a whole frame fits, the next one is padded over
        mk(300, 3, &[K4096, Multi]),         // first frame holds whole entries of the batch
        mk(2000, 2, &[Multi, K4096, Min]),   // a whole batch, then a deep split
        mk(HEADER_MAX - 1, 1, &[F20]),       // r < HEADER_MAX by one
        mk(HEADER_MAX + 2, 1, &[B19, B19]),  // split with two bytes in the first frame
        mk(1, 2, &[Min, Min]),               // one byte of padding
        mk(100, 1, &[Max, Min]),             // a 1 MiB batch: second frame crosses the next boundary
    ]
}

/////////////////////////////////////////////// main ////////////////////////////////////////////////

fn main() {
    let args = Args::parse();
    vcore::quiet_panics();
    if let Some(rf) = args.replay_case() {
        replay(&rf);
    }
    let thorough = args.tier_thorough();
    let rmax = args.u64("rmax", if thorough { 64 } else { 40 });
    let depth = args.usize("max-batches", if thorough { 4 } else { 3 });
    let follow = depth.saturating_sub(1);
    let file_follow = args.usize("file-follow", if thorough { 2 } else { 1 });
    let small_len = args.usize("small-len", if thorough { 4 } else { 3 });
    let small_alpha: Vec<Class> = SMALL_CLASSES[..if thorough { 9 } else { 6 }].to_vec();
    let full_logs = args.usize("full-logs", if thorough { 100 } else { 0 });
    let window = args.u64("window", 4096);
    let only: Option<Vec<String>> = args.get("only").map(|s| s.split(',').map(|x| x.to_string()).collect());
    let want = |f: &str| only.as_ref().map(|o| o.iter().any(|x| x == f)).unwrap_or(true);
    let threads = args.threads();

    let mut lib_classes: Vec<Class> = SEQ_CLASSES.to_vec();
    lib_classes.push(Class::K1500);
    let lib = Lib::new(&lib_classes, (follow + 1).max(small_len).max(3));

    // straddling images are shared by many work items: build them first (in parallel)
    let mut images: Vec<Arc<Image>> = vec![];
    let mut image_failures: Vec<(LogSpec, Vec<Finding>)> = vec![];
    if want("straddle") || want("tfpf") {
        let specs = straddle_specs();
        let built: Vec<Result<Image, Vec<Finding>>> = std::thread::scope(|s| {
            let hs: Vec<_> = specs.iter().map(|sp| s.spawn(|| Image::build(sp, &lib))).collect();
            hs.into_iter().map(|h| h.join().expect("image build")).collect()
        });
        for (sp, b) in specs.into_iter().zip(built) {
            match b {
                Ok(i) => images.push(Arc::new(i)),
                Err(f) => image_failures.push((sp, f)),
            }
        }
    }

    // the smallest cases first, so that the kept witnesses of a signature are the shortest
    let mut items: Vec<Work> = vec![Work::LibFindings];
    if want("rollover") {
        items.push(Work::Rollover);
    }
    if want("seq") {
        for opt in ["default", "tiny", "file"] {
            items.push(Work::Seq { r: None, opt, follow: follow + 1 });
        }
    }
    let mut n_straddle_cuts = 0u64;
    if want("straddle") {
        for (i, img) in images.iter().enumerate() {
            let len = img.bytes.len() as u64;
            let full = i < full_logs;
            let cuts: Vec<u64> = if full { (0..=len).collect() } else { window_cuts(img, window, Some(4096)) };
            n_straddle_cuts += cuts.len() as u64;
            // later cuts read more of the file: hand those out first
            for ch in cuts.rchunks(2048) {
                items.push(Work::Cuts { img: Arc::clone(img), cuts: ch.to_vec(), opt: "default" });
            }
            // the tiny-buffer row on the windows only
            let wc = window_cuts(img, window.min(if thorough { 4096 } else { 512 }), None);
            for ch in wc.rchunks(2048) {
                items.push(Work::Cuts { img: Arc::clone(img), cuts: ch.to_vec(), opt: "tiny" });
            }
        }
    }
    if want("tfpf") {
        for img in images.iter() {
            let mut cuts = window_cuts(img, if thorough { 4096 } else { 1024 }, None);
            cuts.reverse();
            for ch in cuts.chunks(1024) {
                items.push(Work::Tfpf { img: Arc::clone(img), cuts: ch.to_vec() });
            }
        }
    }
    if want("seq") {
        for r in 0..=rmax {
            for opt in ["default", "tiny"] {
                items.push(Work::Seq { r: Some(r), opt, follow });
            }
        }
    }
    if want("file") {
        for r in 0..=rmax {
            items.push(Work::Seq { r: Some(r), opt: "file", follow: file_follow });
        }
    }
    if want("small") {
        let specs: Vec<LogSpec> = all_sequences(&small_alpha, small_len)
            .into_iter()
            .filter(|c| !c.is_empty())
            .map(|classes| LogSpec { r: None, parts: 0, classes })
            .collect();
        // longest first
        for ch in specs.rchunks(16) {
            items.push(Work::Small { specs: ch.to_vec(), tfpf: want("tfpf") });
        }
    }
    let mk = || {
        let mut r = Report::new("seq_log", PROP);
        // the merged report keeps what every thread kept (threads keep 2 per signature, set in
        // the work closure); the smallest two are selected after the merge
        r.max_violations_per_sig = 1024;
        r.max_samples = 12;
        r
    };
    let lib_ref = &lib;
    let mut total = vcore::parallel(items, threads, mk, |item, rep| { rep.max_violations_per_sig = 2; match item {
        Work::Seq { r, opt, follow } => do_seq(lib_ref, rep, *r, opt, *follow),
        Work::Small { specs, tfpf } => {
            let scratch = Scratch::new("log-small");
            do_small(lib_ref, rep, specs, *tfpf, &scratch);
        }
        Work::Cuts { img, cuts, opt } => {
            let exp = expected(&img.batches);
            for &c in cuts.iter() {
                do_cut(lib_ref, rep, img, &exp, c, opt);
            }
            rep.count(&format!("straddle_reads_{opt}"), cuts.len() as u64);
        }
        Work::Tfpf { img, cuts } => {
            let scratch = Scratch::new("log-tfpf");
            let exp = expected(&img.batches);
            do_tfpf(lib_ref, rep, img, &exp, &scratch.sub("log"), cuts);
        }
        Work::Rollover => {
            for classes in all_sequences(&[Class::Min, Class::B21, Class::Multi, Class::K4096], 3) {
                if classes.is_empty() {
                    continue;
                }
                for delta in [-1i64, 0, 1] {
                    let res = check_rollover(lib_ref, &classes, delta);
                    tally(rep, stable_hash(&("rollover", &classes, delta)), &res);
                    rep.count("rollover_cases", 1);
                    for f in res.findings.iter() {
                        let case = json!({"kind": "rollover", "classes": classes_json(&classes), "delta": delta});
                        record(rep, lib_ref, f, case);
                    }
                }
            }
        }
        Work::LibFindings => {
            for (c, f) in lib_ref.findings() {
                record(rep, lib_ref, &f, json!({"kind": "lib", "class": c.name(), "pos": 1}));
            }
        }
    }});

    for (sp, fs) in image_failures.iter() {
        for f in fs {
            let case = json!({"kind": "trunc", "log": sp.to_json(), "cut": 0, "opt": "default"});
            record(&mut total, &lib, f, case);
        }
        total.count("straddling_logs_not_well_formed", 1);
    }

    // keep the smallest cases of every signature
    let complexity = |v: &Violation| -> (u64, u64, u64) {
        let c = &v.case;
        let n = c["classes"].as_array().map(|a| a.len()).unwrap_or(0) as u64
            + c["log"]["classes"].as_array().map(|a| a.len()).unwrap_or(0) as u64;
        (n, c["r"].as_u64().or(c["log"]["r"].as_u64()).unwrap_or(0), c["cut"].as_u64().unwrap_or(0))
    };
    total.violations.sort_by_key(|v| (v.signature.clone(), complexity(v)));
    let mut kept: Vec<Violation> = vec![];
    for v in total.violations.drain(..) {
        if kept.iter().filter(|k| k.signature == v.signature).count() < 2 {
            kept.push(v);
        }
    }
    total.violations = kept;
    total.max_violations_per_sig = 2;

    total.bound = json!({
        "block_size": BLOCK,
        "header_max_size": HEADER_MAX,
        "seq": {
            "r": format!("every r in 0..={rmax} (bytes left before the 1 MiB boundary after the first batch); plus the sequences of <= {depth} batches with no filler at all"),
            "batches_per_sequence": format!("<= {depth} (first = filler of 1 MiB - r - header bytes in ~33 entries)"),
            "following_size_classes": SEQ_CLASSES.iter().map(|c| c.name()).collect::<Vec<_>>(),
            "class_sizes_bytes": SEQ_CLASSES.iter().map(|c| json!({"class": c.name(), "batch_bytes": lib.get(*c, 1).size, "entries": lib.get(*c, 1).entries.len()})).collect::<Vec<_>>(),
            "option_rows": ["default (2 MiB buffers)", "tiny (write buffer 13, read buffer 61)"],
            "file_medium": format!("every r, <= {} following batches, LogBuilder::new + fsync + LogIterator::new on tmpfs", file_follow),
        },
        "small_truncation": {
            "classes": small_alpha.iter().map(|c| c.name()).collect::<Vec<_>>(),
            "batches_per_log": format!("1..={small_len}"),
            "cuts": "every length 0..=len, both option rows; truncate_final_partial_frame at every length",
        },
        "straddling_truncation": {
            "logs": straddle_specs().iter().map(|s| s.to_json()).collect::<Vec<_>>(),
            "cuts": if full_logs > 0 { format!("every byte length 0..=len of the first {} logs (all {} when larger)", full_logs.min(images.len()), images.len()) } else { format!("every length within {window} bytes of every frame start, header end, frame end and block boundary, plus every 4096th length") },
            "cuts_total": n_straddle_cuts,
            "tfpf": "truncate_final_partial_frame at every length within the window of every frame / block boundary",
        },
        "rollover": "every sequence of 1..=3 batches over {Min,B21,Multi,K4096} x rollover size = end of last batch + {-1,0,+1}",
    });
    total.rule = "seq: one case = (r, sequence of following size classes, option row), written by the real LogBuilder into memory and read by the real LogIterator; distinct = that triple; non-trivial = at least one batch is split across the boundary or preceded by padding (by an independent frame parser); outcome = per-batch layout kinds + reader end + findings. truncation: one case = (log, length, option row); distinct state = (log, where the cut falls by the independent frame parser, number of complete batches before it); non-trivial = the cut is not at a batch boundary; outcome = (position, remainder class, reader end kind, whether all complete batches were returned). Oracle: reader output = flat entry list of a prefix of whole batches, containing every batch wholly before the cut, then Ok(None) or Err; no panic; no single allocation above 64 MiB (counting global allocator).".into();
    total.assumptions = vec![
        "entries carry distinct (key, timestamp, value pattern) per batch position, so a duplicated, reordered or foreign entry is distinguishable".into(),
        "the maximum batch is what WriteBatch accepts (1 MiB of encoded entries), which is 38 bytes more than the documented sst::log::MAX_BATCH_SIZE; both are exercised".into(),
        "truncation uses an in-memory reader (Cursor over a prefix of the intact bytes); the file medium is covered by the file family and by truncate_final_partial_frame".into(),
    ];
    total.notes.insert("images_built".into(), json!(images.len()));
    total.finish(&args, "seq_log");
    if total.evaluations > 0 && total.outcomes.len() <= 1 {
        eprintln!("machinery: {} cases gave a single distinct outcome; the harness is vacuous", total.evaluations);
        std::process::exit(2);
    }
}

/////////////////////////////////////////////// replay //////////////////////////////////////////////

fn replay(rf: &Value) -> ! {
    let case = &rf["case"];
    let want = rf["signature"].as_str().unwrap_or("");
    let lib = Lib::new(&[], 0);
    println!("replaying C12 case {case}");
    if let Some(d) = rf["detail"].as_str() {
        println!("recorded: {want}: {d}");
    }
    println!("expected: the reader yields the entries of a prefix of whole batches (all of them on an intact log), the builder's setsum and size accounting match the appended entries");
    let findings = run_case(case, &lib);
    let mut hit = false;
    for (sig, detail) in findings.iter() {
        println!("observed finding {sig}: {detail}");
        if sig == want {
            hit = true;
        }
    }
    if findings.is_empty() {
        println!("observed: no finding, the property holds on this case");
    }
    if hit {
        println!("REPRODUCED {want}");
        std::process::exit(1);
    }
    std::process::exit(if findings.is_empty() { 0 } else { 1 });
}
