//! A counting global allocator: remembers, per thread, the largest single request since the last
//! reset.  Used to observe that reading a torn log never asks for memory in proportion to a
//! number found in the file rather than to the file itself.

use std::alloc::{GlobalAlloc, Layout, System};
use std::cell::Cell;

pub struct Counting;

thread_local! {
    static MAX_REQ: Cell<usize> = const { Cell::new(0) };
}

#[inline]
fn note(sz: usize) {
    let _ = MAX_REQ.try_with(|m| {
        if sz > m.get() {
            m.set(sz);
        }
    });
}

unsafe impl GlobalAlloc for Counting {
    unsafe fn alloc(&self, layout: Layout) -> *mut u8 {
        note(layout.size());
        unsafe { System.alloc(layout) }
    }
    unsafe fn dealloc(&self, ptr: *mut u8, layout: Layout) {
        unsafe { System.dealloc(ptr, layout) }
    }
    unsafe fn alloc_zeroed(&self, layout: Layout) -> *mut u8 {
        note(layout.size());
        unsafe { System.alloc_zeroed(layout) }
    }
    unsafe fn realloc(&self, ptr: *mut u8, layout: Layout, new_size: usize) -> *mut u8 {
        note(new_size);
        unsafe { System.realloc(ptr, layout, new_size) }
    }
}

#[global_allocator]
static GLOBAL: Counting = Counting;

/// Forget the largest request seen by this thread.
pub fn reset_max() {
    let _ = MAX_REQ.try_with(|m| m.set(0));
}

/// Largest single request of this thread since the last reset.
pub fn max_req() -> usize {
    MAX_REQ.try_with(|m| m.get()).unwrap_or(0)
}
