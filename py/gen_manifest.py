#!/usr/bin/env python3
"""Generate /verif/MANIFEST.json from py/checks_table.py (run after editing the table)."""
import json
import os
import sys

HERE = os.path.dirname(os.path.dirname(os.path.abspath(__file__)))
sys.path.insert(0, os.path.join(HERE, "py"))
import checks_table  # noqa: E402

props = [json.loads(l) for l in open(os.path.join(HERE, "properties.jsonl"))]
ids = [p["id"] for p in props]

NOT_APPLICABLE = getattr(checks_table, "NOT_APPLICABLE", {})

checks = []
for pid in ids:
    spec = checks_table.CHECKS.get(pid)
    if not spec:
        continue
    entry = {
        "property_id": pid,
        "quick_cmd": f"./check {pid} quick",
        "evidence_file": f"evidence/{pid}.json",
        "replay_cmd_template": "./check replay {path}",
        "engine": ", ".join(sorted({j["bin"] for t in spec["jobs"].values() for j in t})),
        "level_claimed": {
            "category": spec["level"],
            "text": spec["text"],
            "design_ref": spec.get("design_ref", "DESIGN.md 4"),
        },
        "level_note": spec["note"],
        "technique": spec["technique"],
    }
    if "thorough" in spec["jobs"]:
        entry["thorough_cmd"] = f"./check {pid} thorough"
    checks.append(entry)

na = []
for pid in ids:
    if pid not in checks_table.CHECKS:
        na.append({"property_id": pid,
                   "reason": NOT_APPLICABLE.get(pid, "check not built yet (work in progress); no claim is made")})

hooks_commits = getattr(checks_table, "HOOK_COMMITS", [])
manifest = {
    "version": 1,
    "setup_cmd": "./check build",
    "hooks": {
        "guard": "rescrv_blue_verif",
        "enable": "RUSTFLAGS='--cfg rescrv_blue_verif' (plus '--cfg loom' for the loom workspace); set by ./check for its own cargo builds into /verif/target/{hooks,loom}",
        "baseline_off_cmd": "cd /repo && cargo nextest run --workspace --no-fail-fast --tool-config-file pb:/w/lib/nextest.toml --profile pb --test-threads 8 --offline || cargo test --workspace --no-fail-fast --offline",
        "source_commits": hooks_commits,
        "add_only": True,
    },
    "engines": getattr(checks_table, "ENGINES", []),
    "checks": checks,
    "notes": "All checks are exhaustive enumerations inside stated bounds on the real code (see DESIGN.md). ./check <id> quick|thorough rebuilds the harness against /repo's working tree.",
    "not_applicable": na,
}
with open(os.path.join(HERE, "MANIFEST.json"), "w") as f:
    json.dump(manifest, f, indent=1)
print(f"wrote MANIFEST.json: {len(checks)} checks, {len(na)} not claimed")
