"""The table of checks: which harness binaries decide which property, at which bounds.

Each job is one run of one harness binary; ./check merges the job reports into the evidence.
MANIFEST.json is generated from this table by py/gen_manifest.py.
"""

ADV = "A-min,B-l0,C-default"
COVER = "A-min,B-l0,C-default,D-stall12,E-files2,F-anygc,G-mand4-stall2,H-mem64-mand1"


def seq(prop, depth, cfgs=ADV, extra=None, timeout=3000):
    args = ["--prop", prop, "--depth", depth, "--cfgs", cfgs]
    if extra:
        args += extra
    return {"ws": "harness", "bin": "seq_store", "args": args, "timeout": timeout}


CHECKS = {
    "C01": {
        "level": "model_checking",
        "technique": "explicit-state bounded model checking of the real KeyValueStore: exhaustive enumeration of operation sequences (client ops x single-stepped flush/compaction/GC/verifier/reopen) against a sequential map model",
        "design_ref": "DESIGN.md 3.1, 4 (C01)",
        "jobs": {
            "quick": [seq("C01", 4)],
            "thorough": [seq("C01", 5), seq("C01", 4, COVER)],
        },
        "text": "Every history of <= d steps over a 13-symbol alphabet (3 prefix-sharing keys; put/del/batches; one flush-loop iteration; one compaction-loop iteration; compact-until-idle; clean reopen; verifier pass), from the empty store and from 3 seeded deep states, in 3 adversarial configuration rows (quick, d=4) / 8 rows (thorough, d=5 resp. 4), is executed on the real lsmtk code and every probe key is read back and compared with a BTreeMap model; no fault-free step may return an error. This is bounded exhaustive model checking of the implementation itself, not sampling.",
        "note": "Trusted: the single-step hooks make one loop iteration atomic (no interleaving inside a flush or compaction -- C06/C07/C20 cover schedules); 3 keys; option values of the grid; histories longer than the depth only through the seeds.",
    },
    "C03": {
        "level": "model_checking",
        "technique": "explicit-state bounded model checking: every history <= d x all 25 bound pairs x every cursor program <= L on the real range_scan, against a vector reference cursor over the model map",
        "design_ref": "DESIGN.md 3.1, 4 (C03)",
        "jobs": {
            "quick": [seq("C03", 3)],
            "thorough": [seq("C03", 4, ADV, ["--scan-len-full", 4, "--scan-len-rest", 3])],
        },
        "text": "At the end of every history (as C01, one level shallower) a fresh KeyValueStore::range_scan is opened for each of the 25 combinations of unbounded/included/excluded bounds over {a,b} (including empty and inverted ranges) and every program of up to L calls over {next, prev, seek_to_first, seek_to_last, seek(5 targets)} is run on it; the observation after the last call must equal a vector cursor over the model restricted to the bounds.",
        "note": "Reference movement semantics are those of sst::reference::ReferenceCursor (positions -1..n, saturating). L = 3 for three representative bound pairs and 2 for the rest (quick); 4/3 (thorough).",
    },
    "C02": {
        "level": "fault_enumeration",
        "technique": "exhaustive crash-point and single-fault enumeration: in-process syscall journal of the real store, every journal prefix (x loss variants of unsynced writes) rebuilt as a directory image and recovered by the real KeyValueStore::open",
        "design_ref": "DESIGN.md 3.2, 4 (C02)",
        "jobs": {
            "quick": [{"ws": "harness", "bin": "crash_store", "args": ["--prop", "C02", "--depth", 3, "--cfgs", "A-min,B-l0"], "timeout": 3000}],
            "thorough": [{"ws": "harness", "bin": "crash_store", "args": ["--prop", "C02", "--depth", 4, "--cfgs", "A-min,B-l0,C-default,H-mem64-mand1"], "timeout": 6000}],
        },
        "text": "For every history of <= d steps (quick 3, thorough 4) over a 10-symbol alphabet plus every prefix of 4 curated 10-12 step histories, the real store runs under an in-binary interposer that journals every mutating system call; for every crash point inside the last step (earlier steps are the shorter histories) the directory image is rebuilt from the journal prefix, in the persistence model where every completed call persists and in every variant that loses trailing unsynced writes of any subset of files, and recovered by the real open; reads must match the acknowledged writes (plus, optionally, the whole in-flight write), open must not fail or panic, and the store must accept a further write, flush and compaction. Every single EIO, ENOSPC and short write at every mutating call of the last step is injected too: no panic, and an operation that returns Ok counts as acknowledged.",
        "note": "Crash granularity is the system call; directory operations persist on return (the property's model). The journal model is validated against the real directory after every history. Torn writes inside one call are C09/C12/C13's business. Double faults are not explored.",
    },
    "C17": {
        "level": "model_checking",
        "technique": "stateless model checking of the real skipfree/listfree code under loom (DPOR, iterative preemption bounding 1,2,3,unbounded) with a patched dependency tracker; plus bounded exhaustive operation sequences with an allocation registry for iterator validity",
        "design_ref": "DESIGN.md 3.3, 4 (C17)",
        "jobs": {
            "quick": [{"ws": "loomh", "bin": "loom_skiplist", "args": [], "timeout": 900},
                      {"ws": "harness", "bin": "seq_skiplist", "args": ["--depth", 6], "timeout": 900}],
            "thorough": [{"ws": "loomh", "bin": "loom_skiplist", "args": [], "timeout": 7200},
                         {"ws": "harness", "bin": "seq_skiplist", "args": ["--depth", 7], "timeout": 3000}],
        },
        "text": "46 configurations of 2-3 inserter threads on adjacent keys (same predecessor at every level, scripted heights 1..3, ascending/descending/empty) racing one reader (full iteration, reverse iteration, seek+prev, contains) on the real SkipList<u64,u64,2|3> and 2-3 prependers racing an iterating reader on listfree::List: loom explores every interleaving of the pointer loads/stores/CASes, completing preemption bounds 1, 2, 3 and then the unbounded search as far as each configuration's budget allows (the completed bound is in the evidence). Oracle: a reader that starts after an insert returned must see it; iteration strictly ordered, nothing invented; after join everything present exactly once. Iterator validity is decided sequentially: every operation sequence <= 6 over {insert, open iterator, movements, drop list} with released nodes quarantined and every dereference asserting liveness.",
        "note": "loom models the C11 orderings of the AtomicPtr operations; node payloads are plain memory (not modelled); std Arc counts are not modelled. upstream loom 0.7.2 tracks only the last access per atomic, which loses load/RMW races between different threads; /verif/vendor/loom carries a small patch (marked VERIF PATCH) that tracks all loads since the last write.",
    },
}

HOOK_COMMITS = ["78dca42", "83c0526", "7e7e701", "cedc0ca"]

ENGINES = [
    {"name": "crashmc", "path": "harness/crashmc", "serves_properties": ["C02", "C04", "C08"],
     "kind_free_text": "syscall journal by in-binary libc interposition, crash-image reconstruction, loss variants, single-fault injection"},
    {"name": "loomh", "path": "loomh", "serves_properties": ["C17"],
     "kind_free_text": "loom (vendored, patched DPOR dependency tracking) over the real concurrent code, one child process per configuration, iterative preemption bounding"},
    {"name": "seqmc", "path": "harness/seqmc", "serves_properties": ["C01", "C03", "C04", "C05", "C07", "C08", "C20"],
     "kind_free_text": "bounded exhaustive exploration of operation sequences on the real lsmtk store, single-stepped background loops"},
]
