"""The table of checks: which harness binaries decide which property, at which bounds.

Each job is one run of one harness binary; ./check merges the job reports into the evidence.
MANIFEST.json is generated from this table by py/gen_manifest.py.
"""

ADV = "A-min,B-l0,C-default"
COVER = "A-min,B-l0,C-default,D-stall12,E-files2,F-anygc,G-mand4-stall2,H-mem64-mand1"


def seq(prop, depth, cfgs=ADV, extra=None, timeout=3000):
    args = ["--prop", prop, "--depth", depth, "--cfgs", cfgs]
    if extra:
        args += extra
    return {"ws": "harness", "bin": "seq_store", "args": args, "timeout": timeout}


CHECKS = {
    "C01": {
        "level": "model_checking",
        "technique": "explicit-state bounded model checking of the real KeyValueStore: exhaustive enumeration of operation sequences (client ops x single-stepped flush/compaction/GC/verifier/reopen) against a sequential map model",
        "design_ref": "DESIGN.md 3.1, 4 (C01)",
        "jobs": {
            "quick": [seq("C01", 4)],
            "thorough": [seq("C01", 5), seq("C01", 4, COVER)],
        },
        "text": "Every history of <= d steps over a 13-symbol alphabet (3 prefix-sharing keys; put/del/batches; one flush-loop iteration; one compaction-loop iteration; compact-until-idle; clean reopen; verifier pass), from the empty store and from 3 seeded deep states, in 3 adversarial configuration rows (quick, d=4) / 8 rows (thorough, d=5 resp. 4), is executed on the real lsmtk code and every probe key is read back and compared with a BTreeMap model; no fault-free step may return an error. This is bounded exhaustive model checking of the implementation itself, not sampling.",
        "note": "Trusted: the single-step hooks make one loop iteration atomic (no interleaving inside a flush or compaction -- C06/C07/C20 cover schedules); 3 keys; option values of the grid; histories longer than the depth only through the seeds.",
    },
    "C03": {
        "level": "model_checking",
        "technique": "explicit-state bounded model checking: every history <= d x all 25 bound pairs x every cursor program <= L on the real range_scan, against a vector reference cursor over the model map",
        "design_ref": "DESIGN.md 3.1, 4 (C03)",
        "jobs": {
            "quick": [seq("C03", 3)],
            "thorough": [seq("C03", 4, ADV, ["--scan-len-full", 4, "--scan-len-rest", 3])],
        },
        "text": "At the end of every history (as C01, one level shallower) a fresh KeyValueStore::range_scan is opened for each of the 25 combinations of unbounded/included/excluded bounds over {a,b} (including empty and inverted ranges) and every program of up to L calls over {next, prev, seek_to_first, seek_to_last, seek(5 targets)} is run on it; the observation after the last call must equal a vector cursor over the model restricted to the bounds.",
        "note": "Reference movement semantics are those of sst::reference::ReferenceCursor (positions -1..n, saturating). L = 3 for three representative bound pairs and 2 for the rest (quick); 4/3 (thorough).",
    },
}

HOOK_COMMITS = ["78dca42"]

ENGINES = [
    {"name": "seqmc", "path": "harness/seqmc", "serves_properties": ["C01", "C03", "C04", "C05", "C07", "C08", "C20"],
     "kind_free_text": "bounded exhaustive exploration of operation sequences on the real lsmtk store, single-stepped background loops"},
]
