"""The table of checks: which harness binaries decide which property, at which bounds.

Each job is one run of one harness binary; ./check merges the job reports into the evidence.
MANIFEST.json is generated from this table by py/gen_manifest.py.
"""

ADV = "A-min,B-l0,C-default"
COVER = "A-min,B-l0,C-default,D-stall12,E-files2,F-anygc,G-mand4-stall2,H-mem64-mand1,I-bytes2k,J-stallbytes"


ING = "ing:a,ing:-a,ing:a+b,ing:-a+ab-b,ing:AB,ing:a2-,C,C*,R,V"
# ... plus two shapes whose timestamp range straddles earlier files (level-0 files that cannot be
# ordered) and two ingests that park on the level-0 stall until a compaction step makes room
ING_STALL = "ing:a,ing:-a,ing:a+b,ing:-a+ab-b,ing:AB,ing:a2-,ing:a~c,ing:-ab~c,ing!:a+b,ing!:a~c,C,C*,R,V"
ING_STRADDLE = "ing:a,ing:-a,ing:a+b,ing:-a+ab-b,ing:AB,ing:a2-,ing:a~c,ing:-ab~c,C,C*,R,V"
ING_STALL_FAIL = ING_STALL.replace(",C,", ",C,C!,")
# a kept cursor driven to its end (or anywhere) and used again after compactions retired its files
CURSOR_REUSE = "scan:0,walk:0:to_end,walk:0:prev,walk:0:seek_to_first,walk:0:seek_to_last,walk:0:seek(ab),walk:0:next,C,C*,F,del:a"
ING_SCAN = "ing:a,ing:-a+ab-b,ing:AB,ing:a+b,scan:0,scan:8,walk:0:next,walk:0:prev,walk:0:to_end,walk:0:seek(ab),C,C*,V"


def tree(prop, depth, seed_depth, extra=None, alphabet=ING, cfgs=ADV, timeout=3000):
    """A bare LsmTree fed by external ingests (LsmTree::ingest) instead of a KeyValueStore."""
    args = ["--subject", "tree", "--alphabet", alphabet, "--seed-depth", seed_depth]
    if extra:
        args += extra
    return seq(prop, depth, cfgs, args, timeout)


def seq(prop, depth, cfgs=ADV, extra=None, timeout=3000):
    args = ["--prop", prop, "--depth", depth, "--cfgs", cfgs]
    if extra:
        args += extra
    return {"ws": "harness", "bin": "seq_store", "args": args, "timeout": timeout}


CHECKS = {
    "C01": {
        "level": "model_checking",
        "technique": "explicit-state bounded model checking of the real KeyValueStore: exhaustive enumeration of operation sequences (client ops x single-stepped flush/compaction/GC/verifier/reopen) against a sequential map model",
        "design_ref": "DESIGN.md 3.1, 4 (C01)",
        "jobs": {
            "quick": [tree("C01", 5, 3, alphabet=ING_STALL), seq("C01", 4), seq("C01", 8, "C-default", ["--alphabet", "put:a,put:ab,put:b,R", "--salts", 3, "--only-seed", "empty"])],
            "thorough": [tree("C01", 7, 5, ["--min-depth", 6, "--budget", 2400], alphabet=ING_STALL, timeout=6000), seq("C01", 5), seq("C01", 4, COVER),
                         seq("C01", 9, "C-default,A-min", ["--alphabet", "put:a,put:ab,put:b,del:ab,R", "--salts", 3, "--only-seed", "empty"]),
                         seq("C01", 7, "A-min,B-l0", ["--alphabet", "put:a,del:a,put:b,puthuge:ab,F,C,C*", "--salts", 2, "--only-seed", "empty"])],
        },
        "text": "Every history of <= d steps over a 13-symbol alphabet (3 prefix-sharing keys; put/del/batches; one flush-loop iteration; one compaction-loop iteration; compact-until-idle; clean reopen; verifier pass), from the empty store and from 3 seeded deep states, in 3 adversarial configuration rows (quick, d=4) / 8 rows (thorough, d=5 resp. 4), is executed on the real lsmtk code and every probe key is read back and compared with a BTreeMap model; no fault-free step may return an error. This is bounded exhaustive model checking of the implementation itself, not sampling.",
        "note": "A second job goes deeper on a recovery-oriented sub-alphabet {put a, put ab, put b, reopen} (every reopen turns the log into one SST and recovery re-derives all levels from key/timestamp overlap): every history <= 8, with 3 value salts so that both orders of the digest-sorted manifest listing are driven. Trusted: the single-step hooks make one loop iteration atomic (no interleaving inside a flush or compaction -- C06/C07/C20 cover schedules); 3 keys; option values of the grid; histories longer than the depth only through the seeds. A further job runs the same oracles on a bare LsmTree fed through LsmTree::ingest with externally built SSTs (ten file shapes: single puts and tombstones, whole-range files, a 5 KiB value, two versions of a key in one file; timestamps grow with the step), compaction steps, reopen and verifier passes, from the empty tree and from four seeded states (stacked oldest levels with and without a pending level-0 file, a lower-level file whose timestamps straddle an overlapping upper-level file, before and after reopening). Where the alphabet says so (C01 C04 C08 C20) it also contains two file shapes whose timestamp range straddles earlier files and ingests that park on the level-0 stall (helper thread, completed by whichever later compaction step makes room; a parked flush F! does the same for the store subject): the interplay of a stalled writer with compactions and GCs is then part of the sequential state space.",
    },
    "C03": {
        "level": "model_checking",
        "technique": "explicit-state bounded model checking: every history <= d x all 25 bound pairs x every cursor program <= L on the real range_scan, against a vector reference cursor over the model map",
        "design_ref": "DESIGN.md 3.1, 4 (C03)",
        "jobs": {
            "quick": [{"ws": "harness", "bin": "sched_store", "args": ["--prop", "C03"], "timeout": 1200}, tree("C03", 3, 1, ["--scan-len-full", 3, "--scan-len-rest", 2]), seq("C03", 3, "B-l0,C-default,E-files2", ["--scan-len-full", 3, "--scan-len-rest", 2])],
            "thorough": [{"ws": "harness", "bin": "sched_store", "args": ["--prop", "C03"], "timeout": 7200}, tree("C03", 4, 2, ["--scan-len-full", 3, "--scan-len-rest", 2], timeout=6000), seq("C03", 4, "B-l0,C-default,E-files2", ["--scan-len-full", 4, "--scan-len-rest", 3]), seq("C03", 3, "A-min,D-stall12", ["--scan-len-full", 3, "--scan-len-rest", 2])],
        },
        "text": "At the end of every history (as C01, one level shallower) a fresh KeyValueStore::range_scan is opened for each of the 25 combinations of unbounded/included/excluded bounds over {a,b} (including empty and inverted ranges) and every program of up to L calls over {next, prev, seek_to_first, seek_to_last, seek(5 targets)} is run on it; the observation after the last call must equal a vector cursor over the model restricted to the bounds.",
        "note": "Reference movement semantics are those of sst::reference::ReferenceCursor (positions -1..n, saturating). Per bound pair: every program <= 2 from a fresh cursor, and every program <= L that begins with an absolute positioning call, chained on one cursor and compared after every call (L = 3 for three representative bound pairs and 2 for the rest in the quick tier; 4/3 thorough). The program tree is walked once per distinct read signature (per-component entries up to order-preserving renaming of timestamps), which is exact for reads. A further job runs the same oracles on a bare LsmTree fed through LsmTree::ingest with externally built SSTs (ten file shapes: single puts and tombstones, whole-range files, a 5 KiB value, two versions of a key in one file; timestamps grow with the step), compaction steps, reopen and verifier passes, from the empty tree and from four seeded states (stacked oldest levels with and without a pending level-0 file, a lower-level file whose timestamps straddle an overlapping upper-level file, before and after reopening). Where the alphabet says so (C01 C04 C08 C20) it also contains two file shapes whose timestamp range straddles earlier files and ingests that park on the level-0 stall (helper thread, completed by whichever later compaction step makes room; a parked flush F! does the same for the store subject): the interplay of a stalled writer with compactions and GCs is then part of the sequential state space. Concurrency: sched_store --prop C03 runs one scan against an overwrite (or a delete), a flush and compaction-until-idle that garbage-collects the old version at the oldest level, switching at the named points of the read and write paths (among them: after the scan has captured memtables, version and timestamp), every schedule with <= 2 preemptions (thorough 3); the scan must equal the store's contents at some instant between its call and its return.",
    },
    "C02": {
        "level": "fault_enumeration",
        "technique": "exhaustive crash-point and single-fault enumeration: in-process syscall journal of the real store, every journal prefix (x loss variants of unsynced writes) rebuilt as a directory image and recovered by the real KeyValueStore::open",
        "design_ref": "DESIGN.md 3.2, 4 (C02)",
        "jobs": {
            "quick": [{"ws": "harness", "bin": "crash_store", "args": ["--prop", "C02", "--depth", 3, "--cfgs", "A-min,B-l0"], "timeout": 3000},
                      {"ws": "loomh", "bin": "loom_log", "args": ["--prop", "C02"], "timeout": 1200}],
            "thorough": [{"ws": "harness", "bin": "crash_store", "args": ["--prop", "C02", "--depth", 4, "--cfgs", "A-min,B-l0,C-default,H-mem64-mand1"], "timeout": 6000},
                         {"ws": "loomh", "bin": "loom_log", "args": ["--prop", "C02"], "timeout": 10000}],
        },
        "text": "For every history of <= d steps (quick 3, thorough 4) over a 10-symbol alphabet plus every prefix of 4 curated 10-12 step histories, the real store runs under an in-binary interposer that journals every mutating system call; for every crash point inside the last step (earlier steps are the shorter histories) the directory image is rebuilt from the journal prefix, in the persistence model where every completed call persists and in every variant that loses trailing unsynced writes of any subset of files, and recovered by the real open; reads must match the acknowledged writes (plus, optionally, the whole in-flight write), open must not fail or panic, and the store must accept a further write, flush and compaction. Every single EIO, ENOSPC and short write at every mutating call of the last step is injected too: no panic, and an operation that returns Ok counts as acknowledged.",
        "note": "Crash granularity is the system call; directory operations persist on return (the property's model). The journal model is validated against the real directory after every history. Torn writes inside one call are C09/C12/C13's business. Double faults are not explored. The clause 'an I/O error is surfaced, not acknowledged as success' is additionally decided for concurrent appenders: loom_log --prop C02 explores every interleaving (preemption bounds 1-3, unbounded where the budget allows) of 2-3 threads appending through the real ConcurrentLogBuilder while the first or second fdatasync fails; no append whose bytes were not covered by a successful fdatasync may return Ok.",
    },
    "C17": {
        "level": "model_checking",
        "technique": "stateless model checking of the real skipfree/listfree code under loom (DPOR, iterative preemption bounding 1,2,3,unbounded) with a patched dependency tracker; plus bounded exhaustive operation sequences with an allocation registry for iterator validity",
        "design_ref": "DESIGN.md 3.3, 4 (C17)",
        "jobs": {
            "quick": [{"ws": "loomh", "bin": "loom_skiplist", "args": [], "timeout": 900},
                      {"ws": "harness", "bin": "seq_skiplist", "args": ["--depth", 6], "timeout": 900}],
            "thorough": [{"ws": "loomh", "bin": "loom_skiplist", "args": [], "timeout": 7200},
                         {"ws": "harness", "bin": "seq_skiplist", "args": ["--depth", 7], "timeout": 3000}],
        },
        "text": "46 configurations of 2-3 inserter threads on adjacent keys (same predecessor at every level, scripted heights 1..3, ascending/descending/empty) racing one reader (full iteration, reverse iteration, seek+prev, contains) on the real SkipList<u64,u64,2|3> and 2-3 prependers racing an iterating reader on listfree::List: loom explores every interleaving of the pointer loads/stores/CASes, completing preemption bounds 1, 2, 3 and then the unbounded search as far as each configuration's budget allows (the completed bound is in the evidence). Oracle: a reader that starts after an insert returned must see it; iteration strictly ordered, nothing invented; after join everything present exactly once. Iterator validity is decided sequentially: every operation sequence <= 6 over {insert, open iterator, movements, drop list} with released nodes quarantined and every dereference asserting liveness.",
        "note": "loom models the C11 orderings of the AtomicPtr operations; node payloads are plain memory (not modelled); std Arc counts are not modelled. upstream loom 0.7.2 tracks only the last access per atomic, which loses load/RMW races between different threads; /verif/vendor/loom carries a small patch (marked VERIF PATCH) that tracks all loads since the last write.",
    },
    "C04": {
        "level": "model_checking",
        "technique": "explicit-state bounded model checking of the real store (every history <= d) with the three-way setsum balance recomputed from the files after every history, plus the same oracle on every crash image of the crash explorer",
        "design_ref": "DESIGN.md 4 (C04)",
        "jobs": {
            "quick": [tree("C04", 5, 4, alphabet=ING_STALL, cfgs="A-min,B-l0"), seq("C04", 4), {"ws": "harness", "bin": "crash_store", "args": ["--prop", "C04", "--depth", 3, "--cfgs", "A-min", "--no-faults"], "timeout": 3000},
                      {"ws": "harness", "bin": "tamper", "args": [], "timeout": 3000}],
            "thorough": [tree("C04", 6, 5, ["--min-depth", 5, "--budget", 1800], alphabet=ING_STALL), seq("C04", 5), seq("C04", 4, COVER), {"ws": "harness", "bin": "crash_store", "args": ["--prop", "C04", "--depth", 4, "--cfgs", "A-min,B-l0", "--no-faults"], "timeout": 6000},
                         {"ws": "harness", "bin": "tamper", "args": [], "timeout": 6000}],
        },
        "text": "After every history of <= d steps (manifest rollover ratio 1 so that fragments roll constantly) all manifest fragments are parsed independently of the store: every transaction must satisfy I = O + D, D = removed - added, I = previous O across fragments, every roll-up must list exactly the accumulated set, the last O must equal the sum of the listed digests and the set the live tree lists, and every listed SST's recorded setsum must equal the setsum recomputed from its entries; ManifestVerifier must accept every fragment and LsmVerifier passes (the V step) must not report corruption. The same oracle runs on every recovered crash image (all crash points of the last step, both persistence models).",
        "note": "Reject half (tamper job): three curated histories (one manifest fragment per transaction); every single hex digit of every +, -, I, O, D digest of every edit of every fragment changed (crc fixed, and crc stale), and each of the first 8 entries of every compaction / GC output dropped (newest version of its key), duplicated as an invented older version, or modified -- SST rebuilt by the real builder and renamed everywhere, digests left alone and, separately, the whole I/O/D chain re-derived so that only the data-level GC check can object: ManifestVerifier, Manifest::verify and LsmVerifier must refuse every one of the ~33 k tampered copies and accept the untampered one. Not tampered: the roll-up of the oldest fragment present (nothing to compare it with) and outputs that re-create an input byte for byte. Depth and alphabet of the accept half as C01. A further job runs the same oracles on a bare LsmTree fed through LsmTree::ingest with externally built SSTs (ten file shapes: single puts and tombstones, whole-range files, a 5 KiB value, two versions of a key in one file; timestamps grow with the step), compaction steps, reopen and verifier passes, from the empty tree and from four seeded states (stacked oldest levels with and without a pending level-0 file, a lower-level file whose timestamps straddle an overlapping upper-level file, before and after reopening). Where the alphabet says so (C01 C04 C08 C20) it also contains two file shapes whose timestamp range straddles earlier files and ingests that park on the level-0 stall (helper thread, completed by whichever later compaction step makes room; a parked flush F! does the same for the store subject): the interplay of a stalled writer with compactions and GCs is then part of the sequential state space.",
    },
    "C05": {
        "level": "model_checking",
        "technique": "explicit-state bounded model checking: full multi-version dump of the live SSTs before and after every compaction step of every history <= d, compared as multisets / against an independent reading of the GC policy",
        "design_ref": "DESIGN.md 4 (C05)",
        "jobs": {
            "quick": [seq("C05", 3, "L-keepall", ["--only-seed", "merges-writing-many-files", "--seed-depth", 3]), tree("C05", 5, 3, alphabet=ING_STRADDLE), seq("C05", 4)],
            "thorough": [seq("C05", 4, "L-keepall,B-l0", ["--only-seed", "merges-writing-many-files", "--seed-depth", 4]), tree("C05", 6, 4, ["--min-depth", 5, "--budget", 1800], alphabet=ING_STRADDLE), seq("C05", 5), seq("C05", 4, "A-min,B-l0,F-anygc,G-mand4-stall2")],
        },
        "text": "For every history of <= d steps over an alphabet with 1.5 KiB values and 4 KiB target files (so that compaction outputs split, also inside one key's version run) whose last step is a compaction, every entry (key, timestamp, value-or-tombstone) of every manifest-listed SST is dumped before and after the step. Unless the oldest level changed, the multisets must be equal. For a garbage collection nothing may be invented, a dropped value must have at least N newer entries of its key (versions = N), a dropped tombstone must not expose an older retained value, and the newest entry of every key must survive; with any(versions=1, ttl) at now=0 no value may be dropped.",
        "note": "The GC oracle is a conjunction of safety conditions implied by every reading of the policy documentation; retaining more than the policy requires is always allowed. A further job runs the same oracles on a bare LsmTree fed through LsmTree::ingest with externally built SSTs (ten file shapes: single puts and tombstones, whole-range files, a 5 KiB value, two versions of a key in one file; timestamps grow with the step), compaction steps, reopen and verifier passes, from the empty tree and from four seeded states (stacked oldest levels with and without a pending level-0 file, a lower-level file whose timestamps straddle an overlapping upper-level file, before and after reopening). Where the alphabet says so (C01 C04 C08 C20) it also contains two file shapes whose timestamp range straddles earlier files and ingests that park on the level-0 stall (helper thread, completed by whichever later compaction step makes room; a parked flush F! does the same for the store subject): the interplay of a stalled writer with compactions and GCs is then part of the sequential state space. Row L-keepall (nothing collected, one output file per 5 KiB entry) with the seed merges-writing-many-files drives merges that write six and twelve output files.",
    },
    "C06": {
        "level": "model_checking",
        "technique": "stateless model checking of the whole real KeyValueStore under loom (DPOR, iterative preemption bounding) with a brute-force linearizability check of every execution's recorded history",
        "design_ref": "DESIGN.md 3.3, 4 (C06)",
        "jobs": {
            "quick": [{"ws": "loomh", "bin": "loom_kvs", "args": ["--prop", "C06"], "timeout": 1200},
                      {"ws": "harness", "bin": "sched_store", "args": ["--prop", "C06"], "timeout": 1200}],
            "thorough": [{"ws": "loomh", "bin": "loom_kvs", "args": ["--prop", "C06"], "timeout": 10000},
                         {"ws": "harness", "bin": "sched_store", "args": ["--prop", "C06"], "timeout": 10000}],
        },
        "text": "Nine harnesses on the real store (opened on tmpfs, memtable rollover on every write, skiplist heights 1 and 2): two-key batch vs. full scan; batch vs. two point reads; two writers of one key vs. a reader reading twice; delete and put vs. get+scan; put vs. one flush-loop iteration vs. get+scan; get+scan vs. one compaction-loop iteration on a two-file tree; two writers with read-back vs. a flush iteration. loom explores every interleaving of the lock, condition-variable, wait-list and skiplist operations up to the completed preemption bound; each execution's invocation/response history is checked by brute force against a sequential map (scan = one atomic read) and scans must show all or none of a batch.",
        "note": "loom_kvs: file-system calls are real and not scheduling points; at most 3-4 threads; the completed preemption bound per harness is in the evidence (p=1..3 in the quick tier, because one execution opens a real store). sched_store complements it with a coarse-grained cooperative scheduler on real threads: switches only at named points of the write and flush paths (operation start, after sequencing, before each memtable entry, before the wait-list hand-off, after the rollover), every schedule with <= 2 preemptions (thorough 3) of five (C06) / two (C07) harnesses with 2-4 threads and up to 3 operations per thread, each on a fresh store, every failing schedule replayed before it is reported.",
    },
    "C07": {
        "level": "model_checking",
        "technique": "explicit-state bounded model checking (cursors held across every event sequence <= d, compared with the model at open time) plus stateless model checking under loom of a cursor walk racing writer / flush / compaction threads, skiplist allocation registry on",
        "design_ref": "DESIGN.md 4 (C07)",
        "jobs": {
            "quick": [tree("C07", 5, 3, alphabet=ING_SCAN), seq("C07", 4), seq("C07", 4, "A-min", ["--alphabet", CURSOR_REUSE, "--seed-depth", 4]), {"ws": "loomh", "bin": "loom_kvs", "args": ["--prop", "C07"], "timeout": 1200},
                      {"ws": "harness", "bin": "sched_store", "args": ["--prop", "C07"], "timeout": 1200}],
            "thorough": [tree("C07", 6, 4, ["--min-depth", 5, "--budget", 1800], alphabet=ING_SCAN), seq("C07", 5), seq("C07", 4, "A-min,D-stall12,F-anygc,H-mem64-mand1"), seq("C07", 6, "A-min", ["--alphabet", CURSOR_REUSE, "--seed-depth", 5]), {"ws": "loomh", "bin": "loom_kvs", "args": ["--prop", "C07"], "timeout": 10000},
                         {"ws": "harness", "bin": "sched_store", "args": ["--prop", "C07"], "timeout": 10000}],
        },
        "text": "The alphabet adds 'open a scan and keep it' (two bound pairs) and cursor movements on kept cursors (next, prev, seek) to writes, flush, compaction, compact-until-idle and verifier passes; every sequence of <= d steps is run; each kept cursor must show exactly what a vector cursor over the model AT OPEN TIME shows, every movement must return Ok, nothing may panic, and no released skiplist node may be dereferenced (allocation registry).",
        "note": "seq_store: events happen between cursor calls; the SST cache is off in row A so that a cached table cannot mask a retired file. A further job uses a cursor-reuse sub-alphabet (one kept scan; to_end = next until exhausted, prev, next, seek_to_first, seek_to_last, seek; flush, compaction, compact-until-idle, a delete) with the full depth from every seeded state as well: a cursor that was exhausted, or left anywhere, and is used again after compactions replaced the files it reads. loom_kvs C07: the main thread opens a scan over a snapshot that spans an SST and the memtable and walks it forward and backward while other threads put/delete, run a flush-loop iteration and compaction-loop iterations (4 harnesses, preemption bounds 1-3 completed): every walk must equal the state at open, every call must succeed, and the allocation registry must see no released skiplist node dereferenced. A further job runs the same oracles on a bare LsmTree fed through LsmTree::ingest with externally built SSTs (ten file shapes: single puts and tombstones, whole-range files, a 5 KiB value, two versions of a key in one file; timestamps grow with the step), compaction steps, reopen and verifier passes, from the empty tree and from four seeded states (stacked oldest levels with and without a pending level-0 file, a lower-level file whose timestamps straddle an overlapping upper-level file, before and after reopening). Where the alphabet says so (C01 C04 C08 C20) it also contains two file shapes whose timestamp range straddles earlier files and ingests that park on the level-0 stall (helper thread, completed by whichever later compaction step makes room; a parked flush F! does the same for the store subject): the interplay of a stalled writer with compactions and GCs is then part of the sequential state space.",
    },
    "C08": {
        "level": "model_checking",
        "technique": "explicit-state bounded model checking of histories with verifier passes and reopen-time orphan clean-up (file-presence invariant + read-back), plus exhaustive crash points inside verifier passes and trash moves",
        "design_ref": "DESIGN.md 4 (C08)",
        "jobs": {
            "quick": [{"ws": "loomh", "bin": "loom_kvs", "args": ["--prop", "C08"], "timeout": 1200}, tree("C08", 4, 3, alphabet=ING_STALL), seq("C08", 5), {"ws": "harness", "bin": "crash_store", "args": ["--prop", "C08", "--depth", 3, "--cfgs", "A-min", "--no-faults"], "timeout": 3000}],
            "thorough": [{"ws": "loomh", "bin": "loom_kvs", "args": ["--prop", "C08"], "timeout": 10000}, tree("C08", 6, 4, ["--min-depth", 5, "--budget", 1800], alphabet=ING_STALL), seq("C08", 6), {"ws": "harness", "bin": "crash_store", "args": ["--prop", "C08", "--depth", 4, "--cfgs", "A-min,B-l0", "--no-faults"], "timeout": 6000}],
        },
        "text": "Every history of <= d steps over writes, flush, compaction, compact-until-idle, reopen and verifier passes: after the last step every SST the live version lists must be present in sst/, and all point reads must match the model (so a verifier pass or orphan clean-up that removed a needed file is seen at the next reopen/read). The crash explorer additionally cuts every verifier pass, compaction and reopen at every system call (both persistence models), reopens and reads back.",
        "note": "Reader snapshots held across retirement are C07's business; log files needed for unreplayed writes are covered by the read-back after reopen. A further job runs the same oracles on a bare LsmTree fed through LsmTree::ingest with externally built SSTs (ten file shapes: single puts and tombstones, whole-range files, a 5 KiB value, two versions of a key in one file; timestamps grow with the step), compaction steps, reopen and verifier passes, from the empty tree and from four seeded states (stacked oldest levels with and without a pending level-0 file, a lower-level file whose timestamps straddle an overlapping upper-level file, before and after reopening). Where the alphabet says so (C01 C04 C08 C20) it also contains two file shapes whose timestamp range straddles earlier files and ingests that park on the level-0 stall (helper thread, completed by whichever later compaction step makes room; a parked flush F! does the same for the store subject): the interplay of a stalled writer with compactions and GCs is then part of the sequential state space. Concurrency: loom_kvs --prop C08 runs a merging compaction (two level-0 files whose timestamps interleave) against one or two concurrent ingests on a bare LsmTree, every interleaving up to the completed preemption bound; afterwards every file of the live tree must be in sst/, the tree must reopen from its manifest, and every acknowledged ingest must be readable before and after the reopen.",
    },
    "C13": {
        "level": "model_checking",
        "technique": "explicit-state bounded model checking of the real Manifest: every edit sequence up to a depth over a hostile string alphabet x rollover ratios, reopen compared with a set/map model; every truncation length of MANIFEST; exhaustive crash points (every system call of the last operation, both persistence models, the interrupted write torn at every byte) under a syscall journal",
        "design_ref": "DESIGN.md 4 (C13)",
        "jobs": {
            "quick": [{"ws": "harness", "bin": "seq_mani", "args": [], "timeout": 1800},
                      {"ws": "harness", "bin": "crash_mani", "args": ["--depth", 4], "timeout": 1800}],
            "thorough": [{"ws": "harness", "bin": "seq_mani", "args": ["--plan", "full:2,full:3:prune,core:4"], "timeout": 7200},
                         {"ws": "harness", "bin": "crash_mani", "args": ["--depth", 5], "timeout": 7200}],
        },
        "text": "Every sequence of edits (add, rm, info, combined, empty), rollovers and reopens up to depth 2 over a 163-symbol alphabet of hostile strings and keys and depth 3 over a 33-symbol core alphabet, at rollover ratios 1, 2 and 1000: in-memory state, state after reopen, Manifest::verify, and fragment chaining (each fragment begins with the roll-up of the complete state) must match a BTreeSet/BTreeMap model; newline must be refused; a second open of a locked manifest must fail, also from another process. Every truncation length of MANIFEST for 6 curated and all core histories <= 2: reopen yields a prefix state or an explicit error, never a partial edit, never a panic.",
        "note": "crash_mani: every history <= 4 (thorough 5) over a 9-symbol alphabet x ratios {1, 2, 1000} under the syscall journal, every crash point of the last operation (apply, rollover, open-time rollover) in both persistence models, and with the write call the crash falls in having taken effect only in part (every byte cut of writes <= 96 bytes; first/last bytes, middle and line ends of longer ones): reopen yields the state before or after the in-flight edit or an explicit error, and Manifest::verify reports nothing. A layered alphabet replaces the infeasible full-alphabet depth 5 in seq_mani. Two openers, one lock: a second process calls Manifest::open and is observed blocked in fcntl(F_SETLKW) (through /proc/<pid>/syscall) after the first opener's k-th edit; the first applies m more edits and closes; the second must see all k+m edits, and so must a reopen (it optionally applies an edit of its own): every split k+m <= 4 (thorough 6) x 3 rollover ratios, which is every interleaving of the two at edit granularity because the lock serialises them. Every truncation case is continued with one more edit and a reopen (a torn tail must not leak into, or damage, what is recorded afterwards).",
    },
    "C15": {
        "level": "exploration",
        "technique": "bounded-exhaustive input enumeration against an independent wire encoder/decoder (all short byte strings, boundary-saturated field values, all single mutations / insertions)",
        "design_ref": "DESIGN.md 3.4, 4 (C15)",
        "jobs": {
            "quick": [{"ws": "harness", "bin": "enum_codec", "args": [], "timeout": 1800}],
            "thorough": [{"ws": "harness", "bin": "enum_codec", "args": [], "timeout": 7200}],
        },
        "text": "Varints: all byte strings <= 3 (256-ary) and <= 10 over {00,01,7F,80,FF}, 10 buffer shapes each, fast path vs. slow path vs. an independent LEB128 reference. Messages: 23 derived types covering every field type and container; every boundary value per field and all pairs at a reduced set: pack_sz, bytes equal to an independent encoder, unpack equal. Hostile input: all strings <= 6 over a 12-symbol structural alphabet into every type, every bit flip / byte overwrite / truncation of 15k valid encodings, unknown fields of every wire type at every field boundary: Ok or Err, no panic, no allocation above 64 MiB, known fields undisturbed. Sweeps run in a child process so an abort is observed.",
        "note": "Universally quantified over finite boundary-saturated domains, not over all 2^64 values. A field placed before the single field of a derived enum/Result is an unknown variant to the reader and may be refused (see DESIGN.md 9).",
    },
    "C18": {
        "level": "model_checking",
        "technique": "stateless model checking under loom of the real WorkCoalescingQueue / WaitList / LRU with 2-3 threads, plus bounded exhaustive operation sequences on the LRU and the wait list against sequential references",
        "design_ref": "DESIGN.md 3.3, 4 (C18)",
        "jobs": {
            "quick": [{"ws": "loomh", "bin": "loom_sync", "args": [], "timeout": 1200},
                      {"ws": "harness", "bin": "seq_lru", "args": [], "timeout": 1200}],
            "thorough": [{"ws": "loomh", "bin": "loom_sync", "args": [], "timeout": 10000},
                         {"ws": "harness", "bin": "seq_lru", "args": [], "timeout": 3600}],
        },
        "text": "Queue: 2-3 threads x 1-2 calls x cores that accept every batch / limit batches to two / refuse batching x 2 or 4 wait-list slots: every call returns f(own input), the core sees every input exactly once, program order and real-time order are preserved, batch limits are respected, and loom's deadlock detector finds no execution in which a call blocks forever. Wait list: 2-3 threads through 1, 2 or 4 slots (more waiters than slots): waiters become head in link order, nobody is lost. LRU: 2 threads x 2 operations linearizable against a map; sequentially, all 7.8 M operation sequences <= 5 (148 M <= 6 thorough) over insert / insert_no_evict / lookup / remove / pop with sizes {1,3} and capacities {0,3,4} against a set-valued LRU reference, and all wait-list link/unlink/notify/iterate sequences <= 8 over 4 guards.",
        "note": "The LRU reference admits both answers where the documentation is silent (does overwrite refresh recency). loom bounds as for C17. Wait list with early leavers: 3-4 threads through 1-2 slots (two more waiters than slots) where one or two waiters unlink as soon as they are linked, head or not, as a follower of the coalescing queue does; the head's unlink then frees several slots at once and every blocked linker must still get in (loom's deadlock detector).",
    },
    "C19": {
        "level": "exploration",
        "technique": "bounded-exhaustive input enumeration on the real scrunch code (every text over small alphabets up to a length bound x every record-boundary set x every pattern; every bit pattern up to a length bound plus run-structured vectors) against a naive scan / Vec<bool> reference",
        "design_ref": "DESIGN.md 3.4, 4 (C19)",
        "jobs": {
            "quick": [{"ws": "harness", "bin": "enum_scrunch", "args": [], "timeout": 1800}],
            "thorough": [{"ws": "harness", "bin": "enum_scrunch", "args": ["--stall-secs", "1800"], "timeout": 20000}],
        },
        "text": "Documents: every text over alphabets of 1-4 symbols (plus large-code-point and extreme-symbol families) up to the per-family length bound in evidence.bound, every admissible record-boundary set (one record ... one symbol per record), built with CompressedDocument::construct, unpacked twice at different addresses, constructed twice (identical bytes); len, records, lookup of every offset, offset_of/retrieve of every record byte for byte, search (as a sorted set) and count for every pattern up to length n+1 over the alphabet plus an absent symbol plus boundary code points, against a naive scan of the Vec<u32>. Long structured texts (periodic, de Bruijn, all-equal, thousands of symbols) with their substrings as patterns. Record indexes past the end must give Err on a ladder up to usize::MAX. Bit vectors: every bit pattern up to the length bound and run-structured vectors across word/branch boundaries, for the reference, dense (rrr) and sparse implementations: access, rank, rank0, select, select0, access_rank for every argument in and just outside the domain plus the far ladder, against a Vec<bool>.",
        "note": "The constructors refuse the empty text and empty records with an explicit error (check_record_boundaries); that is counted (note:doc:construct:refuses:*), not reported. Where texts x boundary sets x patterns exceeds the level budget, the non-canonical boundary sets get the reduced pattern set (evidence.bound.documents.levels states which). Level is exploration: the space is a bounded input enumeration, no interleavings or crash points are involved.",
    },
    "C20": {
        "level": "model_checking",
        "technique": "explicit-state search of every reachable stall state (sequential, every threshold row) plus stateless model checking under loom of writer + flush loop + real compaction loops with the deadlock detector as oracle, plus preemption-bounded exhaustive scheduling of refused and ordinary writes on real threads (sched_store)",
        "design_ref": "DESIGN.md 4 (C20)",
        "jobs": {
            "quick": [tree("C20", 5, 3, alphabet=ING_STALL_FAIL, cfgs="A-min,B-l0,I-bytes2k,J-stallbytes"), seq("C20", 5, "A-min,B-l0,E-files2,G-mand4-stall2,I-bytes2k,J-stallbytes"), {"ws": "loomh", "bin": "loom_kvs", "args": ["--prop", "C20"], "timeout": 1200},
                      {"ws": "harness", "bin": "sched_store", "args": ["--prop", "C20"], "timeout": 1200}],
            "thorough": [tree("C20", 6, 4, ["--min-depth", 5, "--budget", 1800], alphabet=ING_STALL_FAIL, cfgs="A-min,B-l0,C-default,I-bytes2k,J-stallbytes"), seq("C20", 6, COVER), {"ws": "loomh", "bin": "loom_kvs", "args": ["--prop", "C20"], "timeout": 10000},
                         {"ws": "harness", "bin": "sched_store", "args": ["--prop", "C20"], "timeout": 10000}],
        },
        "text": "Sequential: in every state reached by a history of <= d steps (flush is only enabled when it would not park) in which level 0 holds back ingest, running the compaction loop until idle must end the stall within 64 compactions; a state that is stalled with no selectable compaction is a deadlock witness (configuration + history). Concurrent: a writer, one flush-loop iteration that has to ingest into a level 0 at the stall threshold, and 1-2 real compaction loops (released by a stop request once writer and flush are through); loom reports any execution in which every thread is parked.",
        "note": "loom_kvs --prop C20 also has two harnesses in which a refused batch races one or two puts (completed without a preemption bound: 244 executions for the two-thread one; the pre-repair code deadlocks in execution #3). sched_store --prop C20: a write the store refuses after it has taken its place in the wait list (a batch carrying a key longer than MAX_KEY_LEN) against puts, a flush-loop iteration and reads on real threads under the cooperative scheduler, every schedule up to the preemption bound: the refused call returns its error and every other call returns (a thread left blocked on the wait list with nobody to wake it is reported as a deadlock). Deadlock-freedom inside the bounds, not fair termination; thresholds from the grid rows; one store open per loom execution limits the quick tier to preemption bound 1-2. A further job runs the same oracles on a bare LsmTree fed through LsmTree::ingest with externally built SSTs (ten file shapes: single puts and tombstones, whole-range files, a 5 KiB value, two versions of a key in one file; timestamps grow with the step), compaction steps, reopen and verifier passes, from the empty tree and from four seeded states (stacked oldest levels with and without a pending level-0 file, a lower-level file whose timestamps straddle an overlapping upper-level file, before and after reopening). Where the alphabet says so (C01 C04 C08 C20) it also contains two file shapes whose timestamp range straddles earlier files and ingests that park on the level-0 stall (helper thread, completed by whichever later compaction step makes room; a parked flush F! does the same for the store subject): the interplay of a stalled writer with compactions and GCs is then part of the sequential state space. Rows I-bytes2k (max_compaction_bytes below two level-0 files) and J-stallbytes (thresholds by bytes) put the limits of the property's last sentence into the grid; the seeds full-stack-of-overlapping-files (sixteen stacked 5 KiB files: every level occupied) and time-interleaved-overlapping-files-reopened (level-0 files that cannot sink one by one) reach stalls that only a merge relieves. max_open_files is not varied: values small enough to matter (3, 4) make the file manager return explicit too-many-open-files errors from point reads, flushes and compactions, which is the documented meaning of that limit and not a wait-for cycle; the read and liveness oracles would count those errors as failures, so the option stays at its default. C! is one compaction-loop iteration that fails (its scratch directory is moved away for the duration): the loop returns the error, and afterwards a stalled level 0 must still find its relieving compaction (a failed compaction must not stay registered as ongoing).",
    },
    "C14": {
        "level": "exploration",
        "technique": "bounded-exhaustive input enumeration of the setsum laws against an independent SHA3-256 + modular arithmetic reference",
        "design_ref": "DESIGN.md 3.4, 4 (C14)",
        "jobs": {
            "quick": [{"ws": "harness", "bin": "enum_setsum", "args": [], "timeout": 1800}],
            "thorough": [{"ws": "harness", "bin": "enum_setsum", "args": [], "timeout": 7200}],
        },
        "text": "All multisets of size <= 4 (thorough 5) over six items (empty, prefix-sharing, 64-byte, 1 KiB), all insertion orders, all insert/remove sequences, every split of every item into <= 3 vectored pieces; all ordered pairs (and structured triples; all 415 M triples in the thorough tier) of 746 boundary digests per column value {0, 1, p-1, p, p+1, 2^32-1} built through from_digest / from_hexdigest, for setsum::Setsum and sst::Setsum: commutativity, associativity, union = sum, remove undoes insert, subtraction undoes addition, digest and hex round trips, and equality with a reference that implements Keccak-f[1600] itself (cross-checked once against python hashlib) and does the column arithmetic in u64 modulo the eight primes. Canonical operands: exact equality; non-canonical operands: congruence and no panic.",
        "note": "Finite boundary-saturated domains, not all 2^256 digests. No alphabet item has a SHA3 word >= p, so the reduction inside hash_to_state is not exercised.",
    },
    "C16": {
        "level": "exploration",
        "technique": "bounded-exhaustive input enumeration: all pairs of boundary-saturated tuples per schema vs. native Ord, all short byte strings and single mutations into the parsers",
        "design_ref": "DESIGN.md 3.4, 4 (C16)",
        "jobs": {
            "quick": [{"ws": "harness", "bin": "enum_tuple", "args": [], "timeout": 1800}],
            "thorough": [{"ws": "harness", "bin": "enum_tuple", "args": [], "timeout": 7200}],
        },
        "text": "For tuple_key, tuple_key2 and tuple_key_derive: 3,503 schemas of <= 3 elements over {unit, u32, u64, i32, i64, string, bytes and narrower widths where supported}, ascending and (where the format has a marker) descending; all pairs of tuples over boundary domains (every byte-length and sign boundary of the variable-length integers; strings that are empty, contain 0x00 / 0xff, are prefixes of one another, U+00FF, U+10FFFF): byte order of encodings = element-wise order of tuples (reversed for descending), prefix-extension contiguity, decode(encode(t)) = t. Parsers: every byte string <= 3 and every truncation / 1-byte mutation of 10,915 valid keys: Ok or Err, never a panic (sweeps in child processes).",
        "note": "Reference order is Rust's Ord on native values with std::cmp::Reverse. The descending-string prefix defect is recorded as a known finding (needs a format change).",
    },
    "C10": {
        "level": "model_checking",
        "technique": "explicit-state bounded model checking of the real block/SST builders and cursors: every strictly ordered entry sequence up to n over a 20-entry universe x option grid x every cursor program up to L, against a vector reference cursor",
        "design_ref": "DESIGN.md 4 (C10)",
        "jobs": {
            "quick": [{"ws": "harness", "bin": "seq_sst", "args": [], "timeout": 1800}],
            "thorough": [{"ws": "harness", "bin": "seq_sst", "args": [], "timeout": 7200}],
        },
        "text": "Every strictly increasing sequence of <= 3 entries (thorough: <= 2 entries with programs <= 5, <= 3 with <= 4, <= 5 with <= 3) from a 20-entry universe (empty key, prefix-sharing keys, a\\0, 0xff; timestamps 0, 1, 2, MAX; small and 1.4 KiB values, tombstones) x 6 block and 12 SST option rows (restart intervals 1/default in bytes and pairs, 4 KiB blocks, bloom bits) is sealed by the real builders; every cursor program of <= L calls over {seek_to_first, seek_to_last, seek(6 keys), next, prev} on Block and Sst is compared with a vector reference after the last call (key, timestamp, value); Sst::load(key, ts) for every key and 5 timestamps; metadata (first/last key, timestamps, file size, setsum recomputed independently); all 400 out-of-order / duplicate inputs and oversize keys/values must be rejected with nothing written; maximal sizes, multi-block tables with entries on block and restart boundaries, SstMultiBuilder with and without split hints.",
        "note": "Reference semantics are sst::reference::ReferenceCursor's. The full cross product at L = 5 does not fit; the exact (n, L) tiers are in the evidence bound.",
    },
    "C11": {
        "level": "model_checking",
        "technique": "explicit-state bounded model checking of the real cursor combinators: every family of small child tables x bounds x timestamps x every cursor program up to L, against a vector cursor built from each combinator's specification sentence",
        "design_ref": "DESIGN.md 4 (C11)",
        "jobs": {
            "quick": [{"ws": "harness", "bin": "seq_cursor", "args": [], "timeout": 1800}],
            "thorough": [{"ws": "harness", "bin": "seq_cursor", "args": [], "timeout": 7200}],
        },
        "text": "Children are in-memory vector cursors with exactly the reference semantics (LazyCursor gets real SSTs on tmpfs). All families of <= 3 tables with <= 2 entries (thorough: up to 3) over keys {a,b,c} x timestamps {0, 2, u64::MAX} x {value, tombstone}, including empty tables, tombstone-only tables and one key's versions split across adjacent tables: MergingCursor = sorted union; ConcatenatingCursor (key-disjoint ordered tables) = concatenation; BoundsCursor with all 25 bound pairs = restriction; PruningCursor at read timestamps {0,1,2,3,MAX} = newest version <= t per key unless a tombstone; LazyCursor = the cursor it opens. Every program of <= L calls (quick 3; thorough up to 5 on the small families) including every direction reversal is compared with the specification cursor after the last call.",
        "note": "436 k cases / 233 M programs in the quick tier. The compositions lsmtk actually builds are exercised end to end by C03.",
    },
    "C12": {
        "level": "model_checking",
        "technique": "bounded exhaustive enumeration of batch-size sequences around the 1 MiB block boundary and of every truncation length on the real LogBuilder/LogIterator, plus stateless model checking under loom of 2-3 threads appending through the real ConcurrentLogBuilder with write/fdatasync interposed",
        "design_ref": "DESIGN.md 4 (C12)",
        "jobs": {
            "quick": [{"ws": "harness", "bin": "seq_log", "args": [], "timeout": 1800},
                      {"ws": "loomh", "bin": "loom_log", "args": [], "timeout": 1200}],
            "thorough": [{"ws": "harness", "bin": "seq_log", "args": [], "timeout": 7200},
                         {"ws": "loomh", "bin": "loom_log", "args": [], "timeout": 10000}],
        },
        "text": "Sequential: every remainder r in 0..=40 (thorough 0..=64) before the 1 MiB block boundary x every sequence of <= 2 (thorough 3) following batches over 12 size classes (minimal, 19/20/21 bytes around the header size, 4 KiB, multi-entry, maximal, one over the maximum which must be refused), two buffer-size rows, memory and file media: the real LogIterator must return exactly the appended entries, in order, once; the builder's setsum must equal an independent recomputation. Truncation: every cut of 258 small logs and, around every frame / block boundary (every byte in the thorough tier) of 12 boundary-straddling ~1 MiB logs: the reader yields the batches that lie wholly before the cut and then ends or errors, never a partial or invented batch, never a panic, never an allocation above 64 MiB; truncate_final_partial_frame's offset leaves a clean prefix. Concurrent: 2-3 threads x 1-2 appends through ConcurrentLogBuilder<File> (2 or 4 wait-list slots) under loom with write and fdatasync interposed: an append returns Ok only after a completed fdatasync that began when its bytes were in the file; the file holds every batch once, whole, in per-thread order; with the first or second fdatasync failing no such append returns Ok.",
        "note": "loom preemption bounds 2-3 completed per configuration in the quick tier; batches are two entries; the file system is real.",
    },
    "C09": {
        "level": "fault_enumeration",
        "technique": "exhaustive damage enumeration: every single-bit flip, 4 byte overwrites per offset, every truncation length, 6 appended suffixes (and all pairs in unchecksummed regions) of SSTs, logs and manifests produced by the real builders; full read program on each damaged file compared with the pristine observation",
        "design_ref": "DESIGN.md 3.2 (damage mode), 4 (C09)",
        "jobs": {
            "quick": [{"ws": "harness", "bin": "damage", "args": [], "timeout": 1800}],
            "thorough": [{"ws": "harness", "bin": "damage", "args": [], "timeout": 7200}],
        },
        "text": "15 pristine files (19 thorough): SSTs with 1-3 data blocks under 3 option rows (bloom bits, restart intervals), logs with whole, split and padded frames (1 MiB boundary), manifests with 1-3 edits and a rollover; thorough adds a two-SST store. Per file and region (data / index / filter / final block / trailing offset; log headers / payload / padding; manifest CRC digits / payload / separators) every single-bit flip at every offset, the overwrites {00, FF, b^80, b+1}, every truncation length, six appended suffixes, and in the thorough tier all pairs of single-byte damages in the regions no checksum covers (6.1 M cases). On each damaged file the whole read program runs (Sst::new, metadata, forward and backward walk, load of every key at several timestamps; LogIterator drain, log_to_builder, log_to_setsum; ManifestIterator, Manifest::open, Manifest::verify; KeyValueStore::open + read-back) and every step must return an error or exactly the pristine observation; no panic, no abort (child processes), no allocation beyond the stated bound.",
        "note": "Accepted by contract: a truncated/extended log reading as a prefix of whole batches (C12), a truncated manifest reading as a prefix of whole edits (C13), file_size of a file whose length changed. For the two ~1 MiB logs byte damage is restricted to stated windows around headers, padding and the block boundary. Four classes of genuine findings are recorded as known (unchecksummed SST final block and its store-level consequence; appended duplicate frame / edit). Text formats: at every offset two adjacent bytes are additionally replaced by one well-formed two-byte UTF-8 character (a lone high byte is refused wholesale as invalid UTF-8; a well-formed character is not, and it shifts every later char boundary), and two suffix lines carry such a character at byte 7 and at byte 8.",
    },
}

HOOK_COMMITS = ["78dca42", "83c0526", "7e7e701", "cedc0ca", "1e0b4ae", "49a3800", "fab6de6", "314c8aa", "471aa7e"]

ENGINES = [
    {"name": "damagemc", "path": "harness/damagemc", "serves_properties": ["C09"], "kind_free_text": "exhaustive single (and paired) damage of finished SST / log / manifest files, read programs compared with the pristine observation"},
    {"name": "logmc", "path": "harness/logmc", "serves_properties": ["C12"], "kind_free_text": "bounded exhaustive batch-size sequences and truncations on the real log builder/reader"},
    {"name": "sstmc", "path": "harness/sstmc", "serves_properties": ["C10", "C11"], "kind_free_text": "bounded exhaustive entry sequences x cursor programs on real blocks, SSTs and cursor combinators against vector references"},
    {"name": "enumc", "path": "harness/enumc", "serves_properties": ["C14", "C16"], "kind_free_text": "bounded-exhaustive input enumeration for setsum and the tuple-key crates against independent references"},
    {"name": "scrunchmc", "path": "harness/scrunchmc", "serves_properties": ["C19"], "kind_free_text": "bounded-exhaustive texts x record boundaries x patterns and bit patterns on the real scrunch code against a naive scan and a Vec<bool>"},
    {"name": "manimc", "path": "harness/manimc", "serves_properties": ["C13", "C18"], "kind_free_text": "bounded exhaustive operation sequences on the real Manifest, LRU cache and wait list against sequential references"},
    {"name": "codecmc", "path": "harness/codecmc", "serves_properties": ["C15"], "kind_free_text": "bounded-exhaustive input enumeration for buffertk/prototk against an independent wire codec"},
    {"name": "crashmc", "path": "harness/crashmc", "serves_properties": ["C02", "C04", "C08"],
     "kind_free_text": "syscall journal by in-binary libc interposition, crash-image reconstruction, loss variants, single-fault injection"},
    {"name": "loomh", "path": "loomh", "serves_properties": ["C02", "C06", "C07", "C08", "C12", "C17", "C18", "C20"],
     "kind_free_text": "loom (vendored, patched DPOR dependency tracking) over the real concurrent code, one child process per configuration, iterative preemption bounding"},
    {"name": "seqmc", "path": "harness/seqmc", "serves_properties": ["C01", "C03", "C04", "C05", "C06", "C07", "C08", "C20"],
     "kind_free_text": "bounded exhaustive exploration of operation sequences on the real lsmtk store, single-stepped background loops; sched_store: real threads under a cooperative scheduler at named points, preemption-bounded DFS"},
]
